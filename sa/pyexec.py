"""``PyExec``: the abstract interpreter of ``sa/rules.py`` (``ModelExec``) extended to the Python subset the
package's own helper code is written in, so that a rule about *model objects* (objects that are a set of kinds
plus the attributes the rule knows) follows that code through every spelling.

Scope - what this engine is used for, and what it is NOT used for.  It is the evaluation engine under two rule
families only: ``rules.object_exec`` (C14 / C15: the ``@unevaluated`` decorator's generated hooks, interpreted over
the finite abstract domain of field kinds x rule kinds described at ``ModelExec``) and ``ncterms.MatrixModel``
(C09 / C10: the K-matrix formulas evaluated into non-commutative matrix *terms*).  In both the values are abstract
(kinds, marks, symbolic terms), the result is compared with a specification over the same abstract values, and
anything without a model raises ``ModelError`` (the rule fails closed, exit 2).  Nothing of the analysed package is
imported or run by CPython: the interpreter walks the AST.  An earlier revision of this file also carried emulated
*worlds* (a file system with a pickle module, a hash-consed SymPy) on which rules of C06 / C16 / C17 / C18 ran the
package's functions on hand-picked scenarios and compared outcomes.  That is testing on a model, not static
analysis - a verdict over the scenarios somebody thought of, not over the code's paths - and was removed together
with those rule versions (DESIGN.md 9.12); the rules of C06 / C16 / C17 / C18 are dataflow / path / typestate
rules again.

Python constructs understood beyond ``ModelExec``:

* objects of repository classes (``Instance``): attribute lookup falls back to the class (MRO over the
  repository classes, name-mangled privates): methods are bound, ``@property`` is evaluated,
  ``@cached_property`` once per object, ``@staticmethod`` / ``@classmethod``; zero-argument ``super()``;
  ``functools.cache`` / ``lru_cache`` functions are memoised per argument identity;
* plain helper classes of the package are instantiated (``new_instance``); for ``typing.NamedTuple`` /
  ``@dataclass`` / ``@attrs.define|frozen`` classes the generated constructor is modelled from the annotated fields,
  a NamedTuple also unpacks / indexes / iterates like the tuple it is.  Classes with external bases (SymPy
  expressions ...) need a model of the rule (``externals[qualname]``);
* ``dynamic`` attributes of model objects (computed on every access);
* generator functions (advanced lazily), ``@contextlib.contextmanager``;
* ``with``, ``try`` with the builtin exception hierarchy, ``raise``, ``del``, in-place operators on sets, dicts, lists;
* the methods of ``str`` / ``tuple`` / ``list`` / ``dict`` / ``set`` natively on model values, ``sorted`` / ``min`` /
  ``max`` with interpreted key functions, ``next``, ``type``, ``abs`` ...;
* models of pure standard-library helpers: ``itertools``, ``functools`` (reduce, partial), ``operator``,
  ``typing.cast``, ``copy.copy``, ``contextlib.suppress``, ``math`` / ``re`` functions on plain data, logger calls;
* ``nonlocal`` / ``global`` declarations are refused (``ModelError``).

``tools/pyexec_difftest.py`` (developer tool) compares this interpreter with CPython on small functions of its own -
never on code of ``/repo``.
"""

from __future__ import annotations

import ast
import itertools
import math
import re as _re

from .loader import ClassInfo, FuncInfo, Tree, unparse
from .rules import _SIGNAL_BREAK, _SIGNAL_CONTINUE, MObj, ModelError, ModelExec, ModelRaise, MRef, _FuncRef

__all__ = ["ClassObj", "GenObj", "Instance", "PyExec", "MObj", "MRef", "ModelError", "ModelRaise", "plain"]

EXC_PARENT = {
    "BaseException": None, "Exception": "BaseException", "KeyboardInterrupt": "BaseException", "SystemExit": "BaseException", "GeneratorExit": "BaseException",
    "ArithmeticError": "Exception", "ZeroDivisionError": "ArithmeticError", "OverflowError": "ArithmeticError", "FloatingPointError": "ArithmeticError",
    "AssertionError": "Exception", "AttributeError": "Exception", "BufferError": "Exception", "EOFError": "Exception",
    "ImportError": "Exception", "ModuleNotFoundError": "ImportError", "LookupError": "Exception", "IndexError": "LookupError", "KeyError": "LookupError",
    "MemoryError": "Exception", "NameError": "Exception", "UnboundLocalError": "NameError",
    "OSError": "Exception", "IOError": "Exception", "EnvironmentError": "Exception", "BlockingIOError": "OSError", "ChildProcessError": "OSError", "ConnectionError": "OSError",
    "FileExistsError": "OSError", "FileNotFoundError": "OSError", "InterruptedError": "OSError", "IsADirectoryError": "OSError", "NotADirectoryError": "OSError",
    "PermissionError": "OSError", "ProcessLookupError": "OSError", "TimeoutError": "OSError",
    "ReferenceError": "Exception", "RuntimeError": "Exception", "NotImplementedError": "RuntimeError", "RecursionError": "RuntimeError",
    "StopIteration": "Exception", "StopAsyncIteration": "Exception", "SyntaxError": "Exception", "SystemError": "Exception", "TypeError": "Exception",
    "ValueError": "Exception", "UnicodeError": "ValueError", "UnicodeDecodeError": "UnicodeError", "UnicodeEncodeError": "UnicodeError",
    "Warning": "Exception", "UserWarning": "Warning", "DeprecationWarning": "Warning", "RuntimeWarning": "Warning",
    "PickleError": "Exception", "PicklingError": "PickleError", "UnpicklingError": "PickleError",
}
_OS_ALIASES = {"IOError", "EnvironmentError"}  # aliases of OSError


def exc_ancestors(kind: str) -> list[str]:
    """``kind`` and its base classes (an unknown class is taken to derive from Exception)."""
    out = []
    k: str | None = "OSError" if kind in _OS_ALIASES else kind
    while k is not None and k not in out:
        out.append(k)
        k = EXC_PARENT.get(k, "Exception" if k not in EXC_PARENT else None)
    if "OSError" in out:
        out += sorted(_OS_ALIASES)
    return out


def plain(v) -> bool:
    """A value without model objects inside (safe to hand to a native pure function)."""
    if isinstance(v, (MObj, MRef, _FuncRef)) or callable(v):
        return False
    if isinstance(v, (list, tuple, set, frozenset)):
        return all(plain(x) for x in v)
    if isinstance(v, dict):
        return all(plain(k) and plain(x) for k, x in v.items())
    return isinstance(v, (str, int, float, complex, bool, bytes, type(None)))


class Instance(MObj):
    """A model object that is an instance of a repository class: what ``attrs`` / ``dynamic`` do not
    answer is looked up in the class (see ``PyExec.getattr``)."""

    def __init__(self, label: str, cls: ClassInfo | None, attrs: dict | None = None, kinds=(), dynamic: dict | None = None, **kw) -> None:
        super().__init__(label, attrs, kinds, **kw)
        self.cls = cls
        self.dynamic = dict(dynamic or {})
        self.cache: dict[str, object] = {}  # cached_property values


class ClassObj(MObj):
    """The class object of a repository class as a value of the model world (``type(obj)``, the name of the class,
    ``cls`` inside ``__new__`` / a classmethod): calling it is ``attrs["__call__"]`` (the rule's constructor model);
    other attributes are looked up in the class - plain functions unbound, static methods, class methods bound."""

    def __init__(self, klass: ClassInfo, attrs: dict | None = None) -> None:
        super().__init__(f"class {klass.name}", {"__qual__": klass.qual, "__name__": klass.name, **(attrs or {})}, kinds={"class"})
        self.klass = klass


class _Super(MObj):
    def __init__(self, inst: MObj, after: ClassInfo | None) -> None:
        super().__init__(f"super() of {inst.label}", kinds=inst.kinds)
        self.inst, self.after = inst, after


class _View(list):
    """``dict.keys()`` / ``dict.items()``: a list (iteration order) that also does the set algebra of a view."""

    def _set(self, other):
        return set(other)

    def __sub__(self, other):
        return set(self) - self._set(other)

    def __rsub__(self, other):
        return self._set(other) - set(self)

    def __and__(self, other):
        return set(self) & self._set(other)

    __rand__ = __and__

    def __or__(self, other):
        return set(self) | self._set(other)

    __ror__ = __or__

    def __xor__(self, other):
        return set(self) ^ self._set(other)

    def isdisjoint(self, other):
        return set(self).isdisjoint(other)


class GenObj(MObj):
    """A generator object of the model: the interpreted body runs inside a Python generator (``gen``) that is
    suspended at every ``yield`` of the interpreted function."""

    def __init__(self, label: str, gen, frame) -> None:
        super().__init__(label, kinds={"generator", "collections.abc.Iterator", "collections.abc.Iterable"}, open=False)
        self.gen, self.frame, self.done = gen, frame, False


class _Frame:
    def __init__(self, fn, self_obj, yields) -> None:
        self.fn, self.self_obj, self.yields = fn, self_obj, yields


class _Bound:
    """A bound method of an ``Instance`` (callable by the interpreter's ``apply``)."""

    def __init__(self, ex: "PyExec", fn: FuncInfo, inst) -> None:
        self.ex, self.fn, self.inst = ex, fn, inst

    def __call__(self, args, kwargs):
        return self.ex.call_function(self.fn, [self.inst, *args], kwargs)


_MISSING = object()
_NOOP_DECORATORS = {"override", "final", "abstractmethod", "no_type_check", "overload", "wraps"}
_LOG_METHODS = {"warning", "info", "debug", "error", "critical", "exception", "warn", "log"}
_INPLACE = {ast.BitOr: "__ior__", ast.BitAnd: "__iand__", ast.Sub: "__isub__", ast.BitXor: "__ixor__", ast.Add: "__iadd__"}


def _own_nodes(fn_node):
    """Nodes of a function body without nested function / class / lambda bodies."""
    todo = list(fn_node.body)
    while todo:
        n = todo.pop()
        yield n
        if isinstance(n, (ast.FunctionDef, ast.AsyncFunctionDef, ast.ClassDef, ast.Lambda)):
            continue  # a nested definition that is itself a statement of the body: its body is not ours
        for c in ast.iter_child_nodes(n):
            if not isinstance(c, (ast.FunctionDef, ast.AsyncFunctionDef, ast.ClassDef, ast.Lambda)):
                todo.append(c)


class PyExec(ModelExec):
    def __init__(self, tree: Tree, externals: dict | None = None, intercept=None, max_depth: int = 14, max_steps: int = 400_000) -> None:
        super().__init__(tree, None, intercept, max_depth, max_steps)
        self.externals.update(self._stdlib())
        self.externals.update(externals or {})
        self.frames: list[_Frame] = []
        self.handling: list[ModelRaise] = []
        self.memo: dict = {}
        self.class_refs: dict[str, object] = {}  # class qualname -> value of `type(instance)` (default: MRef(qual))
        self._constants: dict[str, object] = {}

    # ------------------------------------------------------------------ entry points
    def run(self, fn: FuncInfo, args: list, kwargs: dict | None = None):
        """Interpret ``fn``; every failure of the interpreter itself is a ModelError (fail closed)."""
        try:
            return self.call_function(fn, args, kwargs or {})
        except (ModelError, ModelRaise):
            raise
        except RecursionError:
            raise ModelError(f"recursion too deep while interpreting {fn.qual}") from None
        except Exception as exc:  # noqa: BLE001 - a gap of the interpreter must never look like a verdict
            raise ModelError(f"the model interpreter failed inside {fn.qual}: {type(exc).__name__}: {exc}") from exc

    def call_method(self, inst: MObj, name: str, args: list | None = None, kwargs: dict | None = None):
        f = self.getattr(inst, name)
        return self.apply(f, list(args or []), dict(kwargs or {}))

    # ------------------------------------------------------------------ calls
    def _memoised(self, fn: FuncInfo) -> bool:
        for d in fn.node.decorator_list:
            target = d.func if isinstance(d, ast.Call) else d
            if self.tree.resolve(fn.module, target, fn) in {"functools.cache", "functools.lru_cache"}:
                return True
        return False

    def call_function(self, f, args: list, kwargs: dict | None = None, depth: int = 0):
        kwargs = dict(kwargs or {})
        ref = f if isinstance(f, _FuncRef) else _FuncRef(f)
        fn, node = ref.fn, ref.node if ref.node is not None else ref.fn.node
        scope = fn if fn is not None else ref.scope
        if fn is not None and self.intercept is not None:
            handled, value = self.intercept(fn, args, kwargs)
            if handled:
                return value
        if len(self.frames) > self.max_depth:
            raise ModelError(f"call depth exceeded at {fn.qual if fn else '<closure>'}")
        key = None
        if fn is not None:
            self.entered.append(fn.qual)
            if self._memoised(fn):
                key = (fn.qual, tuple(self._memo_key(a) for a in args), tuple(sorted((k, self._memo_key(v)) for k, v in kwargs.items())))
                if key in self.memo:
                    return self.memo[key]
        env = dict(ref.env or {})
        env.update(self._bind(node, args, kwargs, scope))
        is_gen = any(isinstance(n, (ast.Yield, ast.YieldFrom)) for n in _own_nodes(node))
        is_method = fn is not None and fn.cls is not None and not any(unparse(d).split(".")[-1] == "staticmethod" for d in node.decorator_list)
        self_obj = args[0] if is_method and args else (self.frames[-1].self_obj if fn is None and self.frames else None)
        frame = _Frame(fn if fn is not None else scope, self_obj, None)
        if is_gen:
            gen = GenObj(f"generator {fn.qual if fn is not None else getattr(node, 'name', '<closure>')}", self._gblock(node.body, env, scope, len(self.frames) + 1), frame)
            if fn is not None and any(self.tree.resolve(fn.module, d.func if isinstance(d, ast.Call) else d, fn) in {"contextlib.contextmanager"} for d in node.decorator_list):
                return self._context_manager(gen)
            return gen
        self.frames.append(frame)
        try:
            sig = self.block(node.body, env, scope, len(self.frames))
        finally:
            self.frames.pop()
        result = sig[1] if sig is not None and sig[0] == "return" else None
        if key is not None:
            self.memo[key] = result
        return result

    # ------------------------------------------------------------------ generators
    def _advance(self, g: GenObj, throw: ModelRaise | None = None):
        """Resume a model generator up to its next ``yield``: ("yield", value) or ("done", return value)."""
        if g.done:
            if throw is not None:
                raise throw
            return ("done", None)
        self.frames.append(g.frame)
        try:
            item = g.gen.throw(throw) if throw is not None else next(g.gen)
            return ("yield", item)
        except StopIteration as stop:
            g.done = True
            sig = stop.value
            return ("done", sig[1] if isinstance(sig, tuple) and sig and sig[0] == "return" else None)
        except ModelRaise:
            g.done = True
            raise
        finally:
            self.frames.pop()

    def _context_manager(self, g: GenObj) -> MObj:
        def enter(a, k):
            kind, value = self._advance(g)
            if kind != "yield":
                raise ModelRaise("RuntimeError", "generator didn't yield")
            return value

        def exit_(a, k):
            exc = a[1] if len(a) > 1 and isinstance(a[1], ModelRaise) else None
            if exc is None:
                kind, _ = self._advance(g)
                if kind == "yield":
                    raise ModelRaise("RuntimeError", "generator didn't stop")
                return False
            try:
                kind, _ = self._advance(g, throw=exc)
            except ModelRaise as raised:
                if raised is exc:
                    return False  # the body lets it through
                raise
            if kind == "yield":
                raise ModelRaise("RuntimeError", "generator didn't stop after throw()")
            return True  # the body handled it

        return MObj(f"context manager of {g.label}", {"__enter__": enter, "__exit__": exit_}, open=False)

    def _has_yield(self, st: ast.AST) -> bool:
        todo = [st]
        while todo:
            n = todo.pop()
            if isinstance(n, (ast.Yield, ast.YieldFrom)):
                return True
            for c in ast.iter_child_nodes(n):
                if not isinstance(c, (ast.FunctionDef, ast.AsyncFunctionDef, ast.ClassDef, ast.Lambda)):
                    todo.append(c)
        return False

    def _gblock(self, body: list, env: dict, fn, depth: int):
        """``block`` for the body of a generator function, as a Python generator that is suspended at every ``yield``."""
        for st in body:
            if self._has_yield(st):
                sig = yield from self._gstmt(st, env, fn, depth)
            else:
                sig = self.stmt(st, env, fn, depth)
            if sig is not None:
                return sig
        return None

    def _gstmt(self, st: ast.stmt, env: dict, fn, depth: int):  # noqa: C901, PLR0911, PLR0912
        self.steps += 1
        if self.steps > self.max_steps:
            raise ModelError("step budget of the model execution exhausted")
        value_node = st.value if isinstance(st, (ast.Expr, ast.Assign, ast.AnnAssign, ast.Return)) else None
        if isinstance(value_node, ast.Yield):
            sent = yield (self.ev(value_node.value, env, fn, depth) if value_node.value is not None else None)
            if isinstance(st, ast.Assign):
                for t in st.targets:
                    self.assign(t, sent, env, fn, depth)
            elif isinstance(st, ast.AnnAssign):
                self.assign(st.target, sent, env, fn, depth)
            elif isinstance(st, ast.Return):
                return ("return", sent)
            return None
        if isinstance(value_node, ast.YieldFrom):
            src = self.ev(value_node.value, env, fn, depth)
            result = None
            if isinstance(src, GenObj):
                while True:
                    kind, item = self._advance(src)
                    if kind == "done":
                        result = item
                        break
                    yield item
            else:
                for item in self.iterate(src, value_node.value):
                    yield item
            if isinstance(st, ast.Assign):
                for t in st.targets:
                    self.assign(t, result, env, fn, depth)
            elif isinstance(st, ast.Return):
                return ("return", result)
            return None
        if isinstance(st, ast.If):
            if self._has_yield(st.test):
                raise ModelError("yield inside a condition is outside the interpreted subset")
            return (yield from self._gblock(st.body if self.truth(self.ev(st.test, env, fn, depth)) else st.orelse, env, fn, depth))
        if isinstance(st, ast.For):
            broke = False
            source = self.ev(st.iter, env, fn, depth)
            items = self._lazy_items(source, st.iter)
            for item in items:
                self.assign(st.target, item, env, fn, depth)
                sig = yield from self._gblock(st.body, env, fn, depth)
                if sig is _SIGNAL_BREAK:
                    broke = True
                    break
                if sig is not None and sig is not _SIGNAL_CONTINUE:
                    return sig
            if not broke and st.orelse:
                return (yield from self._gblock(st.orelse, env, fn, depth))
            return None
        if isinstance(st, ast.While):
            while self.truth(self.ev(st.test, env, fn, depth)):
                self.steps += 1
                if self.steps > self.max_steps:
                    raise ModelError("step budget of the model execution exhausted (while loop)")
                sig = yield from self._gblock(st.body, env, fn, depth)
                if sig is _SIGNAL_BREAK:
                    return None
                if sig is not None and sig is not _SIGNAL_CONTINUE:
                    return sig
            if st.orelse:
                return (yield from self._gblock(st.orelse, env, fn, depth))
            return None
        if isinstance(st, ast.With):
            return (yield from self._gwith(st, 0, env, fn, depth))
        if isinstance(st, ast.Try):
            sig = None
            try:
                try:
                    sig = yield from self._gblock(st.body, env, fn, depth)
                    if sig is None and st.orelse:
                        sig = yield from self._gblock(st.orelse, env, fn, depth)
                except ModelRaise as exc:
                    for h in st.handlers:
                        if self._handler_matches(h, exc, env, fn):
                            if h.name:
                                value = getattr(exc, "value", None)
                                env[h.name] = value if isinstance(value, MObj) else MObj(f"exception {exc.kind}", {"__exc_kind__": exc.kind, "args": ()}, kinds=set(exc_ancestors(exc.kind)), open=True)
                            self.handling.append(exc)
                            try:
                                sig = yield from self._gblock(h.body, env, fn, depth)
                            finally:
                                self.handling.pop()
                            break
                    else:
                        raise
            except ModelRaise:
                if st.finalbody:
                    fsig = yield from self._gblock(st.finalbody, env, fn, depth)
                    if fsig is not None:
                        return fsig
                raise
            if st.finalbody:
                fsig = yield from self._gblock(st.finalbody, env, fn, depth)
                if fsig is not None:
                    return fsig
            return sig
        raise ModelError(f"`yield` inside `{unparse(st)[:50]}` is outside the interpreted subset")

    def _gwith(self, st: ast.With, i: int, env: dict, fn, depth: int):
        if i == len(st.items):
            return (yield from self._gblock(st.body, env, fn, depth))
        item = st.items[i]
        cm = self.ev(item.context_expr, env, fn, depth)
        entered = self._cm_call(cm, "__enter__", [])
        if item.optional_vars is not None:
            self.assign(item.optional_vars, entered, env, fn, depth)
        try:
            sig = yield from self._gwith(st, i + 1, env, fn, depth)
        except ModelRaise as exc:
            if self.truth(self._cm_call(cm, "__exit__", [exc.kind, exc, None])):
                return None
            raise
        self._cm_call(cm, "__exit__", [None, None, None])
        return sig

    def _lazy_items(self, source, node=None):
        """Elements of an iterable, one at a time when it is a generator of the model."""
        if isinstance(source, GenObj):
            while True:
                kind, item = self._advance(source)
                if kind == "done":
                    return
                yield item
        else:
            yield from self.iterate(source, node)

    @staticmethod
    def _memo_key(v):
        try:
            hash(v)
        except TypeError:
            return ("id", id(v))
        return v

    # ------------------------------------------------------------------ helper classes of the package
    _RECORD_DECORATORS = {"dataclass", "define", "frozen", "mutable", "s", "attrs"}

    def new_instance(self, cls: ClassInfo, args: list, kwargs: dict):
        """``Cls(*args, **kwargs)`` for a class of the package that has no model of its own."""
        ext = [b for b in self.tree.external_bases(cls) if b.split(".")[-1] not in {"object", "Generic", "Protocol", "ABC"}]
        is_tuple = any(b.split(".")[-1] == "NamedTuple" for b in ext)
        if [b for b in ext if b.split(".")[-1] != "NamedTuple"]:
            raise ModelError(f"objects of {cls.qual} (bases {ext}) have no model")
        if any(self.tree.lookup_method(cls, m) is not None for m in ("__new__", "__getattr__", "__getattribute__", "__setattr__")):
            raise ModelError(f"{cls.qual} customises object creation / attribute access: no model")
        kinds = {c.qual for c in self.tree.mro(cls)} | ({"tuple", "collections.abc.Sequence", "collections.abc.Iterable"} if is_tuple else set())
        obj = Instance(f"{cls.name} object", cls, kinds=kinds)
        init = self.tree.lookup_method(cls, "__init__")
        decorated = {unparse(d[1].func if isinstance(d[1], ast.Call) else d[1]).split(".")[-1] for d in cls.decorators}
        if init is not None and not is_tuple:
            self.call_function(init, [obj, *args], kwargs)
            return obj
        if not is_tuple and not decorated & self._RECORD_DECORATORS:
            if args or kwargs:
                raise ModelRaise("TypeError", f"{cls.name}() takes no arguments")
            return obj
        scope = self.module_scope(cls.module)
        fields = []
        for c in reversed(self.tree.mro(cls)):
            for st in c.node.body:
                if isinstance(st, ast.AnnAssign) and isinstance(st.target, ast.Name) and "ClassVar" not in unparse(st.annotation):
                    fields = [f for f in fields if f[0] != st.target.id] + [(st.target.id, st.value)]
        if len(args) > len(fields):
            raise ModelRaise("TypeError", f"{cls.name}() takes {len(fields)} positional arguments but {len(args)} were given")
        values = dict(zip([f for f, _ in fields], args))
        for k, v in kwargs.items():
            if k not in dict(fields) or k in values:
                raise ModelRaise("TypeError", f"{cls.name}() got an unexpected / repeated keyword argument {k}")
            values[k] = v
        for name, default in fields:
            if name in values:
                continue
            if default is None:
                raise ModelRaise("TypeError", f"{cls.name}() missing argument {name}")
            if isinstance(default, ast.Call) and unparse(default.func).split(".")[-1] in {"field", "ib", "Factory"}:
                kw = {k.arg: k.value for k in default.keywords}
                if "factory" in kw or "default_factory" in kw:
                    values[name] = self.apply(self.ev(kw.get("factory", kw.get("default_factory")), {}, scope, 0), [], {})
                elif "default" in kw:
                    values[name] = self.ev(kw["default"], {}, scope, 0)
                elif unparse(default.func).split(".")[-1] == "Factory" and default.args:
                    values[name] = self.apply(self.ev(default.args[0], {}, scope, 0), [], {})
                else:
                    raise ModelRaise("TypeError", f"{cls.name}() missing argument {name}")
            else:
                values[name] = self.ev(default, {}, scope, 0)
        for name, _ in fields:
            conv = None
            d = dict(fields)[name]
            if isinstance(d, ast.Call):
                conv = next((k.value for k in d.keywords if k.arg == "converter"), None)
            obj.attrs[name] = values[name] if conv is None else self.apply(self.ev(conv, {}, scope, 0), [values[name]], {})
        if is_tuple:
            order = [f for f, _ in fields]
            as_tuple = lambda: tuple(obj.attrs[f] for f in order)  # noqa: E731
            obj.attrs.update({"__iter__": lambda a, k: list(as_tuple()), "__len__": lambda a, k: len(order), "__getitem__": lambda a, k: self._guard(as_tuple().__getitem__, a[0]),
                              "_asdict": lambda a, k: {f: obj.attrs[f] for f in order}, "_fields": tuple(order),
                              "_replace": lambda a, k: self.new_instance(cls, [], {**{f: obj.attrs[f] for f in order}, **k}),
                              "__eq__": lambda a, k: (isinstance(a[0], tuple) and a[0] == as_tuple()) or (isinstance(a[0], Instance) and a[0].cls is cls and tuple(a[0].attrs[f] for f in order) == as_tuple())})
        post = self.tree.lookup_method(cls, "__attrs_post_init__") or self.tree.lookup_method(cls, "__post_init__")
        if post is not None:
            self.call_function(post, [obj], {})
        return obj

    def apply(self, f, args: list, kwargs: dict, depth: int = 0, node=None):
        if isinstance(f, MRef) and f.name in self.tree.classes and f.name not in self.externals:
            return self.new_instance(self.tree.classes[f.name], args, kwargs)
        if isinstance(f, ClassObj) and "__call__" not in f.attrs:
            return self.new_instance(f.klass, args, kwargs)
        if isinstance(f, tuple) and f and f[0] == "builtin":
            b = self._builtin(f[1])
            if b is None:
                raise ModelError(f"builtin `{f[1]}` has no model" + (f" (`{unparse(node)[:60]}`)" if node is not None else ""))
            return b(args, kwargs)
        if isinstance(f, Instance) and "__call__" not in f.attrs and f.cls is not None:
            m = self.tree.lookup_method(f.cls, "__call__")
            if m is not None:
                return self.call_function(m, [f, *args], kwargs)
        return super().apply(f, args, kwargs, depth, node)

    # ------------------------------------------------------------------ attribute lookup
    def getattr(self, base, name: str, node=None):
        if isinstance(base, _Super):
            found = self._class_attr(base.inst, getattr(base.inst, "cls", None), name, after=base.after)
            if found is not _MISSING:
                return found
            sup = base.inst.attrs.get("__super__") if isinstance(base.inst, MObj) else None
            if sup is not None:
                return self.getattr(sup, name, node)
            raise ModelError(f"super().{name} of {base.inst!r} has no model")
        klass = base.klass if isinstance(base, ClassObj) and name not in base.attrs else self.tree.classes.get(base.name) if isinstance(base, MRef) and base.name not in self.externals else None
        if klass is not None:
            if name in {"__name__", "__qualname__"}:
                return klass.name
            for c in self.tree.mro(klass):
                key = name
                prefix = f"_{c.name.lstrip('_')}__"
                if name.startswith(prefix):
                    key = "__" + name[len(prefix):]
                m = c.methods.get(key)
                if m is not None:
                    decs = {unparse(d.func if isinstance(d, ast.Call) else d).split(".")[-1] for d in m.node.decorator_list}
                    if "classmethod" in decs:
                        return _Bound(self, m, base)
                    if decs & {"property", "cached_property"}:
                        raise ModelError(f"{klass.name}.{name}: a property read on the class has no model")
                    return _FuncRef(m)
        if isinstance(base, MObj):
            dyn = getattr(base, "dynamic", None)
            if dyn and name in dyn:
                base.reads.append(name)
                return dyn[name]()
            if name in base.attrs:
                base.reads.append(name)
                return base.attrs[name]
            cls = getattr(base, "cls", None)
            if cls is not None:
                found = self._class_attr(base, cls, name)
                if found is not _MISSING:
                    base.reads.append(name)
                    return found
            return super().getattr(base, name, node)
        if isinstance(base, tuple) and len(base) == 2 and base[0] == "builtin" and base[1] in self._PY_TYPES:
            native = getattr(self._PY_TYPES[base[1]], name, None)  # `dict.fromkeys`, `str.lower`, `set.union` used as functions
            if native is not None and callable(native):
                if name == "fromkeys":
                    return lambda a, k: self._guard(dict.fromkeys, self.iterate(a[0]), *a[1:])
                if name == "join" and base[1] == "str":
                    return lambda a, k: a[0].join(self._str(x) if not isinstance(x, str) else x for x in self.iterate(a[1]))
                return lambda a, k: self._guard(native, *[self.iterate(x) if i and isinstance(x, (GenObj,)) else x for i, x in enumerate(a)], **k)
        if isinstance(base, (str, bytes, tuple, list, dict, set, frozenset, int, float)) and not isinstance(base, bool):
            if isinstance(base, dict) and name in {"keys", "items"}:
                inner = super().getattr(base, name, node)
                return lambda a, k: _View(inner(a, k))
            m = self._native_method(base, name)
            if m is not None:
                return m
        return super().getattr(base, name, node)

    def _class_attr(self, inst: MObj, cls: ClassInfo | None, name: str, after: ClassInfo | None = None):
        if cls is None:
            return _MISSING
        mro = self.tree.mro(cls)
        if after is not None and after in mro:
            mro = mro[mro.index(after) + 1:]
        for c in mro:
            key = name
            prefix = f"_{c.name.lstrip('_')}__"
            if name.startswith(prefix):
                key = "__" + name[len(prefix):]
            m = c.methods.get(key)
            if m is None:
                for st in c.node.body:
                    tgt = st.targets[0] if isinstance(st, ast.Assign) and len(st.targets) == 1 else st.target if isinstance(st, ast.AnnAssign) and st.value is not None else None
                    if isinstance(tgt, ast.Name) and tgt.id == key:
                        raise ModelError(f"class-level attribute {c.name}.{key} has no model")
                continue
            kinds = set()
            for d in m.node.decorator_list:
                target = d.func if isinstance(d, ast.Call) else d
                last = unparse(target).split(".")[-1]
                if last == "register":
                    kinds.add("register")  # an implementation of a single-dispatch method: reached through the dispatcher
                elif last in {"singledispatchmethod", "singledispatch"}:
                    kinds.add("dispatch")
                elif last in {"setter", "deleter"}:
                    kinds.add("setter")
                elif last in {"property", "cached_property", "staticmethod", "classmethod", "cache", "lru_cache"} | _NOOP_DECORATORS:
                    kinds.add(last)
                else:
                    raise ModelError(f"decorator `{unparse(d)[:40]}` of {m.qual} has no model")
            if "setter" in kinds or "register" in kinds:
                continue
            if "dispatch" in kinds:
                return self._dispatcher(c.node.body, m, inst)
            if "property" in kinds:
                return self.call_function(m, [inst], {})
            if "cached_property" in kinds:
                cache = getattr(inst, "cache", None)
                if cache is None:
                    raise ModelError(f"cached_property {m.qual} on an object without a cache model")
                if m.qual not in cache:
                    cache[m.qual] = self.call_function(m, [inst], {})
                return cache[m.qual]
            if "staticmethod" in kinds:
                return _FuncRef(m)
            if "classmethod" in kinds:
                return _Bound(self, m, self.type_of(inst))
            return _Bound(self, m, inst)
        if name in {"keys", "items", "values", "get", "__contains__"} and any(b.split(".")[-1] in {"Mapping", "MutableMapping"} for b in self.tree.external_bases(cls)) \
                and self.tree.lookup_method(cls, "__getitem__") is not None and self.tree.lookup_method(cls, "__iter__") is not None:
            return self._mapping_mixin(inst, name)
        return _MISSING

    def _mapping_mixin(self, inst: MObj, name: str):
        """What ``collections.abc.Mapping`` adds to a class that defines ``__getitem__`` / ``__iter__`` / ``__len__``."""
        def getitem(key):
            return self.call_method(inst, "__getitem__", [key])

        def get(a, k):
            try:
                return getitem(a[0])
            except ModelRaise as exc:
                if exc.kind == "KeyError":
                    return a[1] if len(a) > 1 else k.get("default")
                raise

        def contains(a, k):
            try:
                getitem(a[0])
            except ModelRaise as exc:
                if exc.kind == "KeyError":
                    return False
                raise
            return True

        return {"keys": lambda a, k: list(self.iterate(inst)), "values": lambda a, k: [getitem(x) for x in self.iterate(inst)],
                "items": lambda a, k: [(x, getitem(x)) for x in self.iterate(inst)], "get": get, "__contains__": contains}[name]

    def _dispatcher(self, body: list, base: FuncInfo, inst=None):
        """``functools.singledispatch[method]``: the implementations registered in the same body with
        ``@<name>.register(T)`` (or ``@<name>.register`` + annotation of the first argument) are chosen by
        ``isinstance`` of the first argument, the decorated function is the fallback."""
        impls = []
        for st in body:
            if not isinstance(st, ast.FunctionDef):
                continue
            for d in st.decorator_list:
                target = d.func if isinstance(d, ast.Call) else d
                if isinstance(target, ast.Attribute) and target.attr == "register" and isinstance(target.value, ast.Name) and target.value.id == base.name:
                    if isinstance(d, ast.Call) and d.args:
                        tnode = d.args[0]
                    else:
                        params = [a for a in [*st.args.posonlyargs, *st.args.args]][(1 if inst is not None else 0):]
                        tnode = params[0].annotation if params else None
                    if tnode is None:
                        raise ModelError(f"{base.qual}.register without a type")
                    impls.append((self.ev(tnode, {}, base, 0), st))

        def call(a, k):
            if not a:
                raise ModelRaise("TypeError", f"{base.name} requires at least 1 positional argument")
            for t, node in impls:
                if self.is_instance(a[0], t):
                    ref = _FuncRef(None, node, {}, base)
                    return self.call_function(ref, ([inst] if inst is not None else []) + list(a), k)
            return self.call_function(base, ([inst] if inst is not None else []) + list(a), k)

        return call

    _PY_TYPES = {"int": int, "float": float, "str": str, "bool": bool, "tuple": tuple, "list": list, "dict": dict, "set": set, "frozenset": frozenset, "bytes": bytes,
                 "complex": complex, "NoneType": type(None)}

    def is_instance(self, obj, c) -> bool:
        """``isinstance(obj, c)`` for a class value of the model: a builtin type, an external class (MRef, compared
        with the kinds of the object by last name component) or a class object of the world (``__qual__``)."""
        if isinstance(c, tuple) and len(c) == 2 and c[0] == "builtin":
            cname = c[1]
            if cname == "object":
                return True
            py = self._PY_TYPES.get(cname)
            if py is not None and not isinstance(obj, (MObj, MRef, _FuncRef)) and not callable(obj):
                return isinstance(obj, py)
        elif isinstance(c, MRef):
            cname = c.name
        elif isinstance(c, MObj) and "__qual__" in c.attrs:
            cname = c.attrs["__qual__"]
        else:
            raise ModelError(f"isinstance(..., {c!r}) has no model")
        kinds = self.kinds_of(obj)
        last = cname.split(".")[-1].split("::")[-1]
        return cname in kinds or last in {x.split(".")[-1].split("::")[-1] for x in kinds}

    def kinds_of(self, v) -> set:
        if not isinstance(v, (MObj, MRef, _FuncRef)):
            for t in (dict, list, tuple, set, frozenset, str):
                if isinstance(v, t) and type(v) is not t:  # a subclass of a builtin container (a tracked dict of a rule)
                    return super().kinds_of(t(v) if t is not str else str(v))
        return super().kinds_of(v)

    def type_of(self, v):
        if isinstance(v, MObj) and "__class__" in v.attrs:
            return v.attrs["__class__"]
        if isinstance(v, MObj) and "__class__" in (getattr(v, "dynamic", None) or {}):
            return v.dynamic["__class__"]()
        if isinstance(v, MObj) and "__exc_kind__" in v.attrs:
            kind = v.attrs["__exc_kind__"]
            return MObj(f"class {kind}", {"__qual__": kind, "__name__": kind, "__qualname__": kind}, kinds={"class"}, open=False)
        cls = getattr(v, "cls", None)
        if cls is not None:
            return self.class_refs.get(cls.qual) or (self.externals[cls.qual] if isinstance(self.externals.get(cls.qual), ClassObj) else MRef(cls.qual))
        for t, name in ((bool, "bool"), (int, "int"), (float, "float"), (str, "str"), (tuple, "tuple"), (list, "list"), (dict, "dict"), (set, "set"), (frozenset, "frozenset"), (type(None), "NoneType")):
            if type(v) is t:
                return ("builtin", name)
        raise ModelError(f"type({v!r}) has no model")

    # ------------------------------------------------------------------ native containers
    def _str(self, v) -> str:
        if isinstance(v, MObj):
            if "__str__" in v.attrs:
                return v.attrs["__str__"]([], {})
            cls = getattr(v, "cls", None)
            if cls is not None:
                for name in ("__str__", "__repr__"):
                    m = self.tree.lookup_method(cls, name)
                    if m is not None:
                        return self.call_function(m, [v], {})
            raise ModelError(f"str({v!r}) has no model")
        if isinstance(v, (MRef, _FuncRef)):
            raise ModelError(f"str({v!r}) has no model")
        if isinstance(v, (list, tuple, dict, set, frozenset)) and not plain(v):
            raise ModelError("str() of a container of model objects has no model")
        return str(v)

    def _guard(self, call, *a, **k):
        try:
            out = call(*a, **k)
        except (ModelError, ModelRaise):
            raise
        except (TypeError, ValueError, KeyError, IndexError, AttributeError, StopIteration, ZeroDivisionError, OverflowError) as exc:
            raise ModelRaise(type(exc).__name__, str(exc)) from None
        if isinstance(out, (type({}.keys()), type({}.values()), type({}.items()))) or (hasattr(out, "__next__") and not isinstance(out, (MObj,))):
            return list(out)
        return out

    def _keyed(self, key):
        if key is None:
            return None
        return lambda x: self.apply(key, [x], {})

    def _native_method(self, base, name: str):
        if name.startswith("__") and name not in {"__contains__", "__getitem__", "__len__", "__iter__", "__eq__", "__setitem__"}:
            return None
        if isinstance(base, dict) and name in {"get", "items", "keys", "values", "update", "pop", "setdefault", "copy"}:
            return None  # the parent's models (with the hashability checks)
        if isinstance(base, list) and name in {"append", "extend", "insert", "copy", "index", "pop"}:
            return None
        if isinstance(base, set) and name in {"add"}:
            return None
        native = getattr(type(base), name, None)
        if native is None or not callable(native):
            return None
        it = self.iterate
        if isinstance(base, str):
            if name == "join":
                return lambda a, k: base.join(self._str(x) if not isinstance(x, str) else x for x in it(a[0]))
            if name == "format":
                return lambda a, k: base.format(*[self._str(x) if isinstance(x, MObj) else x for x in a], **{n: self._str(x) if isinstance(x, MObj) else x for n, x in k.items()})

            def str_method(a, k):
                if not (plain(a) and plain(k)):
                    raise ModelError(f"str.{name} on model objects has no model")
                return self._guard(getattr(base, name), *a, **k)

            return str_method
        if isinstance(base, list) and name == "sort":
            def sort(a, k):
                key = self._keyed(k.get("key"))
                self._guard(base.sort, key=key, reverse=bool(k.get("reverse", False)))

            return sort
        if isinstance(base, (set, frozenset)) and name in {"union", "intersection", "difference", "symmetric_difference", "issubset", "issuperset", "isdisjoint",
                                                           "update", "difference_update", "intersection_update", "symmetric_difference_update"}:
            return lambda a, k: self._guard(getattr(base, name), *[it(x) if not isinstance(x, (set, frozenset)) else x for x in a])
        if isinstance(base, dict) and name == "fromkeys":
            return lambda a, k: self._guard(dict.fromkeys, it(a[0]), *a[1:])

        def method(a, k):
            for x in a:
                if isinstance(x, (set, dict, list)) and isinstance(base, (set, frozenset, dict)) and name in {"add", "discard", "remove", "__contains__"}:
                    raise ModelRaise("TypeError", "unhashable")
            return self._guard(getattr(base, name), *a, **k)

        return method

    # ------------------------------------------------------------------ builtins
    def _builtin(self, name: str):
        it = self.iterate

        def sorted_(a, k):
            return self._guard(sorted, it(a[0]), key=self._keyed(k.get("key")), reverse=bool(k.get("reverse", False)))

        def minmax(f):
            def run(a, k):
                items = it(a[0]) if len(a) == 1 else list(a)
                kw = {}
                if k.get("key") is not None:
                    kw["key"] = self._keyed(k["key"])
                if "default" in k:
                    kw["default"] = k["default"]
                return self._guard(f, items, **kw)

            return run

        def next_(a, k):
            seq = a[0]
            if isinstance(seq, GenObj):
                kind, item = self._advance(seq)
                if kind == "yield":
                    return item
                if len(a) > 1:
                    return a[1]
                raise ModelRaise("StopIteration")
            if isinstance(seq, list):  # iterators are modelled as lists: consume the first element
                if seq:
                    return seq.pop(0)
                if len(a) > 1:
                    return a[1]
                raise ModelRaise("StopIteration")
            raise ModelError("next() on something that is not an iterator of the model")

        def iter_(a, k):
            if isinstance(a[0], GenObj):
                return a[0]
            return list(it(a[0]))  # a fresh list: next() consumes it without touching the container

        def super_(a, k):
            if a:
                inst = a[1] if len(a) > 1 else None
                if isinstance(inst, MObj) and "__super__" in inst.attrs:
                    return inst.attrs["__super__"]
                raise ModelError("super(C, obj) has no model here")
            if not self.frames or not isinstance(self.frames[-1].self_obj, MObj):
                raise ModelError("super() outside a method of a model object")
            frame = self.frames[-1]
            inst = frame.self_obj
            after = frame.fn.cls if isinstance(frame.fn, FuncInfo) else None
            if after is None and isinstance(frame.fn, FuncInfo):
                outer = frame.fn.outer
                while outer is not None and after is None:
                    after, outer = outer.cls, outer.outer
            return _Super(inst, after)

        def str_(a, k):
            return self._str(a[0]) if a else ""

        def numeric(f):
            def run(a, k):
                if not plain(a):
                    raise ModelError(f"{f.__name__}() of a model object has no model")
                return self._guard(f, *a, **k)

            return run

        def len_(a, k):
            v = a[0]
            if isinstance(v, MObj) and "__len__" in v.attrs:
                return v.attrs["__len__"]([], {})
            return len(it(v))

        def isinstance_(a, k):
            classes = a[1] if isinstance(a[1], tuple) and not (len(a[1]) == 2 and a[1][0] == "builtin") else (a[1],)
            return any(self.is_instance(a[0], c) for c in classes)

        def getattr_(a, k):
            try:
                return self.getattr(a[0], a[1])
            except ModelRaise as exc:
                if exc.kind == "AttributeError" and len(a) > 2:
                    return a[2]
                raise

        def hasattr_(a, k):
            if isinstance(a[0], Instance) and a[0].cls is not None and self.tree.lookup_method(a[0].cls, a[1]) is not None:
                return True
            klass = a[0].klass if isinstance(a[0], ClassObj) else self.tree.classes.get(a[0].name) if isinstance(a[0], MRef) else None
            if klass is not None and a[1] not in getattr(a[0], "attrs", {}):
                if a[1] in {"__name__", "__qualname__", "__module__", "__mro__", "__dict__", "__doc__"} or self.tree.lookup_method(klass, a[1]) is not None:
                    return True
                declared = {t.id for c in self.tree.mro(klass) for st in c.node.body for t in ((st.targets if isinstance(st, ast.Assign) else [st.target]) if isinstance(st, (ast.Assign, ast.AnnAssign)) else []) if isinstance(t, ast.Name)}
                if a[1] in declared:
                    return True
                if self.tree.external_bases(klass):
                    raise ModelError(f"hasattr({klass.name}, {a[1]!r}): the class has external bases - no model")
                return False
            return ModelExec._builtin(self, "hasattr")(a, k)

        def enumerate_(a, k):
            start = a[1] if len(a) > 1 else k.get("start", 0)
            return [(i, x) for i, x in enumerate(it(a[0]), start)]

        def sum_(a, k):
            total = a[1] if len(a) > 1 else k.get("start", 0)
            for x in it(a[0]):
                total = self.binop(ast.Add(), total, x, None)
            return total

        def dict_(a, k):
            out = {}
            if a:
                src = a[0]
                if isinstance(src, Instance) and src.cls is not None and (self.tree.lookup_method(src.cls, "keys") is not None or self._class_attr(src, src.cls, "keys") is not _MISSING):
                    pairs = [(key, self.call_method(src, "__getitem__", [key])) for key in it(self.call_method(src, "keys"))]
                elif isinstance(src, MObj) and "keys" in src.attrs and "__getitem__" in src.attrs:
                    pairs = [(key, src.attrs["__getitem__"]([key], {})) for key in it(src.attrs["keys"]([], {}))]
                else:
                    pairs = list(src.items()) if isinstance(src, dict) else [tuple(it(p)) for p in it(src)]
                for p in pairs:
                    if len(p) != 2:
                        raise ModelRaise("ValueError", "dictionary update sequence element has the wrong length")
                    self._hash_check(p[0])
                    out[p[0]] = p[1]
            out.update(k)
            return out

        def zip_(a, k):
            cols = [it(x) for x in a]
            if k.get("strict") and len({len(c) for c in cols}) > 1:
                raise ModelRaise("ValueError", "zip() arguments have different lengths")
            return list(zip(*cols))

        table = {
            "sorted": sorted_, "min": minmax(min), "max": minmax(max), "next": next_, "iter": iter_, "super": super_, "str": str_, "len": len_,
            "abs": numeric(abs), "float": numeric(float), "int": numeric(int), "round": numeric(round), "divmod": numeric(divmod), "pow": numeric(pow), "complex": numeric(complex),
            "bytes": numeric(bytes), "ord": numeric(ord), "chr": numeric(chr), "format": lambda a, k: format(self._str(a[0]) if isinstance(a[0], MObj) else a[0], *a[1:]),
            "type": lambda a, k: self.type_of(a[0]), "print": lambda a, k: None, "isinstance": isinstance_, "getattr": getattr_, "hasattr": hasattr_,
            "enumerate": enumerate_, "sum": sum_, "dict": dict_, "zip": zip_, "repr": lambda a, k: self._str(a[0]) if isinstance(a[0], MObj) else repr(a[0]),
            "object": lambda a, k: MObj("object()", open=False),
        }
        if name in table:
            return table[name]
        return super()._builtin(name)

    @staticmethod
    def module_scope(mod) -> FuncInfo:
        """A scope for evaluating an expression that is written at module / class level of ``mod``."""
        return FuncInfo(qual=f"{mod.name}::<module>", node=ast.parse("def _module(): pass").body[0], module=mod, cls=None, outer=None)

    def _module_constant(self, target: str):
        """A module-level name bound by a plain assignment (``_PATTERN = re.compile(...)``, a table, a constant):
        its value expression is evaluated once, in the scope of its module; what has no model stays an opaque name."""
        if target in self._constants:
            return self._constants[target]
        modname, _, name = target.partition("::")
        mod = self.tree.modules.get(modname)
        value = _MISSING
        if "." in name:  # an attribute of a module constant: `_PATTERN.split`
            head, _, rest = name.partition(".")
            base = self._module_constant(f"{modname}::{head}") if f"{modname}::{head}" not in self.tree.funcs and f"{modname}::{head}" not in self.tree.classes else _MISSING
            if base is not _MISSING and not isinstance(base, MRef):
                value = base
                for part in rest.split("."):
                    value = self.getattr(value, part)
            return value
        if mod is not None and name in mod.toplevel:
            node = mod.toplevel[name]
            expr = node.value if isinstance(node, (ast.Assign, ast.AnnAssign)) else None
            if expr is not None:
                scope = self.module_scope(mod)
                self._constants[target] = _MISSING  # (a cycle stays opaque)
                try:
                    value = self.ev(expr, {}, scope, 0)
                except (ModelError, ModelRaise):
                    value = _MISSING
        self._constants[target] = value
        return value

    def _resolved(self, target: str):
        if target in self.tree.funcs and target not in self.externals:
            m = self.tree.funcs[target]
            if m.cls is not None and any(unparse(d).split(".")[-1] == "classmethod" for d in m.node.decorator_list):
                owner = self.externals.get(m.cls.qual)
                if isinstance(owner, ClassObj) or owner is None:  # (a class that a rule models in its own way also gets its `cls` from the rule: `intercept`)
                    return _Bound(self, m, owner if owner is not None else self.class_refs.get(m.cls.qual, MRef(m.cls.qual)))  # `Cls.make(...)`
        if target not in self.externals and target not in self.tree.funcs and target not in self.tree.classes and "::" in target:
            value = self._module_constant(target)
            if value is not _MISSING:
                return value
        if target not in self.externals and "::" not in target and "." in target:
            # an attribute of a modelled external object: `sys.platform.startswith`, `os.environ.get`
            parts = target.split(".")
            for cut in range(len(parts) - 1, 0, -1):
                head = ".".join(parts[:cut])
                if head in self.externals:
                    value = self.externals[head]
                    if isinstance(value, (MRef, _FuncRef)) or callable(value):
                        break
                    for part in parts[cut:]:
                        value = self.getattr(value, part)
                    return value
        f = self.tree.funcs.get(target) if target not in self.externals else None
        if f is not None and f.cls is None and f.outer is None and any(unparse(d.func if isinstance(d, ast.Call) else d).split(".")[-1] == "singledispatch" for d in f.node.decorator_list):
            return self._dispatcher(f.module.tree.body if hasattr(f.module, "tree") else [], f)
        return super()._resolved(target)

    def _global(self, node: ast.Name, fn):
        if node.id in {"NotImplemented"}:
            raise ModelError("NotImplemented has no model")
        try:
            return super()._global(node, fn)
        except ModelError:
            if self._builtin(node.id) is not None:
                return ("builtin", node.id)
            if node.id in EXC_PARENT:
                return MRef(node.id)
            raise

    # ------------------------------------------------------------------ standard library models
    def _stdlib(self) -> dict:
        it = self.iterate
        ap = self.apply

        def product(a, k):
            return [tuple(c) for c in itertools.product(*[it(x) for x in a], repeat=k.get("repeat", 1))]

        def chain(a, k):
            return [x for seq in a for x in it(seq)]

        def from_iterable(a, k):
            return [x for seq in it(a[0]) for x in it(seq)]

        def zip_longest(a, k):
            return [tuple(c) for c in itertools.zip_longest(*[it(x) for x in a], fillvalue=k.get("fillvalue"))]

        def starmap(a, k):
            return [ap(a[0], list(it(x)), {}) for x in it(a[1])]

        def islice(a, k):
            return list(itertools.islice(it(a[0]), *a[1:]))

        def filterfalse(a, k):
            return [x for x in it(a[1]) if not (self.truth(x) if a[0] is None else self.truth(ap(a[0], [x], {})))]

        def takewhile(a, k):
            out = []
            for x in it(a[1]):
                if not self.truth(ap(a[0], [x], {})):
                    break
                out.append(x)
            return out

        def dropwhile(a, k):
            items = list(it(a[1]))
            n = 0
            while n < len(items) and self.truth(ap(a[0], [items[n]], {})):
                n += 1
            return items[n:]

        def repeat(a, k):
            n = a[1] if len(a) > 1 else k.get("times")
            if n is None:
                raise ModelError("itertools.repeat without a count has no model")
            return [a[0]] * n

        def accumulate(a, k):
            f = a[1] if len(a) > 1 else k.get("func")
            out = []
            for x in it(a[0]):
                out.append(x if not out else (ap(f, [out[-1], x], {}) if f is not None else self.binop(ast.Add(), out[-1], x, None)))
            return out

        def reduce(a, k):
            items = list(it(a[1]))
            if len(a) > 2:
                acc = a[2]
            elif items:
                acc = items.pop(0)
            else:
                raise ModelRaise("TypeError", "reduce() of empty iterable with no initial value")
            for x in items:
                acc = ap(a[0], [acc, x], {})
            return acc

        def partial(a, k):
            f, pre, prek = a[0], list(a[1:]), dict(k)
            return lambda a2, k2: ap(f, [*pre, *a2], {**prek, **k2})

        def itemgetter(a, k):
            def get(a2, k2):
                got = [self.ev(ast.Subscript(value=ast.Name(id="_o", ctx=ast.Load()), slice=ast.Name(id="_i", ctx=ast.Load()), ctx=ast.Load()), {"_o": a2[0], "_i": i}, None, 0) for i in a]
                return got[0] if len(got) == 1 else tuple(got)

            return get

        def attrgetter(a, k):
            def one(obj, path):
                for part in path.split("."):
                    obj = self.getattr(obj, part)
                return obj

            return lambda a2, k2: one(a2[0], a[0]) if len(a) == 1 else tuple(one(a2[0], p) for p in a)

        def methodcaller(a, k):
            return lambda a2, k2: ap(self.getattr(a2[0], a[0]), list(a[1:]), dict(k))

        def op(node_op):
            return lambda a, k: self.binop(node_op, a[0], a[1], None)

        def cmp(node_op):
            return lambda a, k: self.compare(node_op, a[0], a[1], None)

        def native(f, strict=False):
            def run(a, k):
                if not (plain(a) and plain(k)):
                    if strict:  # a function of strings: anything else is a TypeError in CPython, too
                        raise ModelRaise("TypeError", f"{getattr(f, '__name__', f)}: expected string or bytes-like object")
                    raise ModelError(f"{getattr(f, '__name__', f)} on model objects has no model")
                return self._guard(f, *a, **k)

            return run

        def suppress(a, k):
            names = [x.name.split(".")[-1] if isinstance(x, MRef) else str(x) for x in a]

            def exit_(a2, k2):
                kind = a2[0] if a2 else None
                return kind is not None and any(n in exc_ancestors(kind) for n in names)

            return MObj(f"contextlib.suppress({', '.join(names)})", {"__enter__": lambda a2, k2: None, "__exit__": exit_}, open=False)

        def deepcopy(a, k):
            def rec(v):
                if isinstance(v, list):
                    return [rec(x) for x in v]
                if isinstance(v, tuple):
                    return tuple(rec(x) for x in v)
                if isinstance(v, dict):
                    return {rec(key): rec(x) for key, x in v.items()}
                if isinstance(v, (set, frozenset)):
                    return type(v)(rec(x) for x in v)
                if isinstance(v, MObj) and getattr(v, "cls", None) is not None:
                    raise ModelError("deepcopy of an object of the package has no model")
                return v  # model values are immutable values: equal means identical

            return rec(a[0])

        def exit_stack(a, k):
            callbacks: list = []

            def close(a2=None, k2=None, exc=None):
                suppressed = False
                while callbacks:
                    cb = callbacks.pop()
                    if cb([exc.kind if exc is not None and not suppressed else None, exc if not suppressed else None, None], {}):
                        suppressed = True
                return suppressed

            def enter_context(a2, k2):
                cm = a2[0]
                value = self._cm_call(cm, "__enter__", [])
                callbacks.append(lambda a3, k3: self._cm_call(cm, "__exit__", a3))
                return value

            def callback(a2, k2):
                callbacks.append(lambda a3, k3, f=a2[0], rest=list(a2[1:]), kw=dict(k2): ap(f, rest, kw) and False)
                return a2[0]

            stack = MObj("contextlib.ExitStack()", open=False)
            stack.attrs.update({"__enter__": lambda a2, k2: stack, "__exit__": lambda a2, k2: close(exc=a2[1] if len(a2) > 1 and isinstance(a2[1], ModelRaise) else None),
                                "enter_context": enter_context, "callback": callback, "close": lambda a2, k2: close() and None, "push": lambda a2, k2: callbacks.append(a2[0]) or a2[0]})
            return stack

        def closing(a, k):
            thing = a[0]
            return MObj("contextlib.closing(...)", {"__enter__": lambda a2, k2: thing, "__exit__": lambda a2, k2: ap(self.getattr(thing, "close"), [], {}) and False}, open=False)

        def nullcontext(a, k):
            value = a[0] if a else k.get("enter_result")
            return MObj("contextlib.nullcontext(...)", {"__enter__": lambda a2, k2: value, "__exit__": lambda a2, k2: False}, open=False)

        def get_logger(a, k):
            return MObj("a logger", {name: (lambda a2, k2: None) for name in (*_LOG_METHODS, "setLevel", "addHandler", "isEnabledFor")}, open=False)

        def copy_(a, k):
            v = a[0]
            if isinstance(v, (list, dict, set)):
                return type(v)(v)
            if isinstance(v, (tuple, frozenset, str, int, float, type(None))):
                return v
            raise ModelError("copy of a model object has no model")

        def wrap_match(mt):
            if mt is None:
                return None
            return MObj(f"match {mt.group(0)!r}", {"group": lambda a, k: mt.group(*a), "groups": lambda a, k: mt.groups(*a), "start": lambda a, k: mt.start(*a), "end": lambda a, k: mt.end(*a),
                                                   "span": lambda a, k: mt.span(*a), "groupdict": lambda a, k: mt.groupdict(), "__getitem__": lambda a, k: mt[a[0]]}, open=False)

        def strings_only(f, post=lambda x: x):
            def run(a, k):
                if not (plain(a) and plain(k)):
                    raise ModelRaise("TypeError", "expected string or bytes-like object")
                return post(self._guard(f, *a, **k))

            return run

        def compile_(a, k):
            if not (plain(a) and plain(k)):
                raise ModelError("re.compile of a model object has no model")
            pat = self._guard(_re.compile, *a, **k)
            return MObj(f"re.compile({pat.pattern!r})", {
                "pattern": pat.pattern, "split": strings_only(pat.split), "sub": strings_only(pat.sub), "findall": strings_only(pat.findall),
                "match": strings_only(pat.match, wrap_match), "search": strings_only(pat.search, wrap_match), "fullmatch": strings_only(pat.fullmatch, wrap_match),
                "finditer": strings_only(lambda *x: list(pat.finditer(*x)), lambda ms: [wrap_match(m_) for m_ in ms])}, open=False)

        def class_of(x) -> ClassInfo:
            if isinstance(x, ClassObj):
                return x.klass
            if isinstance(x, MRef) and x.name in self.tree.classes:
                return self.tree.classes[x.name]
            if isinstance(x, Instance) and x.cls is not None:
                return x.cls
            raise ModelRaise("TypeError", "not a class with declared fields")

        def declared_fields(a, k):
            """``attrs.fields(cls)`` / ``dataclasses.fields(cls_or_instance)``: one object per annotated field, in order."""
            cls = class_of(a[0])
            names: list[str] = []
            for c in reversed(self.tree.mro(cls)):
                for st in c.node.body:
                    if isinstance(st, ast.AnnAssign) and isinstance(st.target, ast.Name) and "ClassVar" not in unparse(st.annotation) and st.target.id not in names:
                        names.append(st.target.id)
            return tuple(MObj(f"field {n}", {"name": n, "alias": n.lstrip("_")}, kinds={"attrs.Attribute", "dataclasses.Field"}, open=False) for n in names)

        out = {
            "attrs.fields": declared_fields, "attr.fields": declared_fields, "dataclasses.fields": declared_fields,
            "attrs.fields_dict": lambda a, k: {f.attrs["name"]: f for f in declared_fields(a, k)}, "attr.fields_dict": lambda a, k: {f.attrs["name"]: f for f in declared_fields(a, k)},
            "re.compile": compile_, "re.match": strings_only(_re.match, wrap_match), "re.search": strings_only(_re.search, wrap_match), "re.fullmatch": strings_only(_re.fullmatch, wrap_match),
            "itertools.product": product, "itertools.chain": chain, "itertools.chain.from_iterable": from_iterable, "itertools.zip_longest": zip_longest,
            "itertools.starmap": starmap, "itertools.islice": islice, "itertools.filterfalse": filterfalse, "itertools.takewhile": takewhile, "itertools.dropwhile": dropwhile, "itertools.repeat": repeat, "itertools.accumulate": accumulate,
            "itertools.combinations": lambda a, k: [tuple(c) for c in itertools.combinations(it(a[0]), a[1])],
            "itertools.permutations": lambda a, k: [tuple(c) for c in itertools.permutations(it(a[0]), *a[1:])],
            "itertools.combinations_with_replacement": lambda a, k: [tuple(c) for c in itertools.combinations_with_replacement(it(a[0]), a[1])],
            "functools.reduce": reduce, "functools.partial": partial,
            "operator.itemgetter": itemgetter, "operator.attrgetter": attrgetter, "operator.methodcaller": methodcaller,
            "operator.add": op(ast.Add()), "operator.sub": op(ast.Sub()), "operator.mul": op(ast.Mult()), "operator.or_": op(ast.BitOr()), "operator.and_": op(ast.BitAnd()),
            "operator.concat": op(ast.Add()), "operator.truediv": op(ast.Div()),
            "operator.eq": cmp(ast.Eq()), "operator.ne": cmp(ast.NotEq()), "operator.lt": cmp(ast.Lt()), "operator.le": cmp(ast.LtE()), "operator.gt": cmp(ast.Gt()), "operator.ge": cmp(ast.GtE()),
            "operator.is_": cmp(ast.Is()), "operator.is_not": cmp(ast.IsNot()), "operator.contains": lambda a, k: self.contains(a[0], a[1]),
            "operator.not_": lambda a, k: not self.truth(a[0]), "operator.truth": lambda a, k: self.truth(a[0]),
            "operator.getitem": lambda a, k: itemgetter([a[1]], {})([a[0]], {}),
            "typing.cast": lambda a, k: a[1], "typing.TYPE_CHECKING": False, "copy.copy": copy_, "copy.deepcopy": deepcopy, "contextlib.suppress": suppress,
            "contextlib.ExitStack": exit_stack, "contextlib.closing": closing, "contextlib.nullcontext": nullcontext, "logging.getLogger": get_logger,
            "sys.version_info": (3, 12, 0, "final", 0), "sys.platform": "linux", "sys.maxsize": 2**63 - 1,
            "math.prod": lambda a, k: reduce([op(ast.Mult()), a[0], k.get("start", 1)], {}),
            "re.split": native(_re.split, strict=True), "re.sub": native(_re.sub, strict=True), "re.findall": native(_re.findall, strict=True), "re.escape": native(_re.escape, strict=True),
            "math.sqrt": native(math.sqrt), "math.floor": native(math.floor), "math.ceil": native(math.ceil), "math.isclose": native(math.isclose),
            "collections.OrderedDict": lambda a, k: self._builtin("dict")(a, k),
        }
        for name in _LOG_METHODS:
            out[name] = lambda a, k: None
        return out

    # ------------------------------------------------------------------ operators
    def binop(self, op, a, b, node):
        if isinstance(a, (MObj, MRef)) or isinstance(b, (MObj, MRef)):
            hooks = {ast.Add: ("__add__", "__radd__"), ast.Sub: ("__sub__", "__rsub__"), ast.Mult: ("__mul__", "__rmul__"), ast.Div: ("__truediv__", "__rtruediv__"),
                     ast.Pow: ("__pow__", "__rpow__"), ast.BitOr: ("__or__", "__ror__"), ast.BitAnd: ("__and__", "__rand__"),
                     ast.MatMult: ("__matmul__", "__rmatmul__")}.get(type(op))
            if hooks is not None:
                if isinstance(a, MObj) and hooks[0] in a.attrs:
                    return a.attrs[hooks[0]]([b], {})
                if isinstance(b, MObj) and hooks[1] in b.attrs:
                    return b.attrs[hooks[1]]([a], {})
            raise ModelError("arithmetic on model objects" + (f" (`{unparse(node)[:50]}`)" if node is not None else "") + " has no model")
        if isinstance(op, (ast.Div, ast.Pow, ast.Mod, ast.LShift, ast.RShift, ast.Mult)):
            import operator as _op

            f = {ast.Div: _op.truediv, ast.Pow: _op.pow, ast.Mod: _op.mod, ast.LShift: _op.lshift, ast.RShift: _op.rshift, ast.Mult: _op.mul}[type(op)]
            if isinstance(op, ast.Mod) and isinstance(a, str) and not plain(b):
                raise ModelError("%-formatting of model objects has no model")
            return self._guard(f, a, b)
        return super().binop(op, a, b, node)

    def compare(self, op, a, b, node) -> bool:
        if isinstance(op, (ast.Lt, ast.LtE, ast.Gt, ast.GtE)):
            if isinstance(a, MObj) or isinstance(b, MObj):
                hook = {ast.Lt: "__lt__", ast.LtE: "__le__", ast.Gt: "__gt__", ast.GtE: "__ge__"}[type(op)]
                if isinstance(a, MObj) and hook in a.attrs:
                    return bool(a.attrs[hook]([b], {}))
                raise ModelError("ordering of model objects" + (f" (`{unparse(node)[:50]}`)" if node is not None else "") + " has no model")
            import operator as _op

            return bool(self._guard({ast.Lt: _op.lt, ast.LtE: _op.le, ast.Gt: _op.gt, ast.GtE: _op.ge}[type(op)], a, b))
        if isinstance(op, (ast.Eq, ast.NotEq)) and not isinstance(a, MObj) and not isinstance(b, MObj):
            for x, y in ((a, b), (b, a)):
                if isinstance(x, MRef) and not self._names_callable(x) and plain(y) and y is not None:
                    raise ModelError(f"the value of the external `{x.name}` has no model (compared with {y!r})")
            if isinstance(a, (_FuncRef, MRef)) or isinstance(b, (_FuncRef, MRef)):
                return super().compare(op, a, b, node)
            same = self._guard(lambda: a == b)  # containers compare element-wise, model objects inside by identity
            return bool(same) if isinstance(op, ast.Eq) else not same
        return super().compare(op, a, b, node)

    def contains(self, container, item) -> bool:
        if isinstance(container, _Super):
            raise ModelError("`in super()` has no model")
        if isinstance(container, Instance) and "__contains__" not in container.attrs and container.cls is not None:
            m = self.tree.lookup_method(container.cls, "__contains__")
            if m is not None:
                return self.truth(self.call_function(m, [container, item], {}))
            mixin = self._class_attr(container, container.cls, "__contains__")
            if mixin is not _MISSING:
                return bool(mixin([item], {}))
            if self.tree.lookup_method(container.cls, "__iter__") is not None:
                return any(x is item or (not isinstance(x, MObj) and x == item) for x in self.iterate(container))
        return super().contains(container, item)

    def iterate(self, v, node=None) -> list:
        if isinstance(v, GenObj):
            return list(self._lazy_items(v))
        if isinstance(v, Instance) and "__iter__" not in v.attrs and v.cls is not None:
            m = self.tree.lookup_method(v.cls, "__iter__")
            if m is not None:
                return list(self.iterate(self.call_function(m, [v], {})))
        if isinstance(v, (bytes, range)):
            return list(v)
        if v is None or isinstance(v, (bool, int, float, complex)):
            raise ModelRaise("TypeError", f"'{type(v).__name__}' object is not iterable")
        if isinstance(v, MObj) and "__iter__" not in v.attrs and (not v.open or v.attrs.get("__not_iterable__")) and not (isinstance(v, Instance) and v.cls is not None):
            raise ModelRaise("TypeError", f"{v!r} is not iterable")
        return super().iterate(v, node)

    def truth(self, v) -> bool:
        if isinstance(v, Instance) and v.cls is not None and "__bool__" not in v.attrs and "__len__" not in v.attrs:
            for name in ("__bool__", "__len__"):
                m = self.tree.lookup_method(v.cls, name)
                if m is not None:
                    return bool(self.call_function(m, [v], {}))
        if isinstance(v, _Bound):
            return True
        if isinstance(v, MRef) and not self._names_callable(v):
            raise ModelError(f"the truth value of the external `{v.name}` has no model")
        return super().truth(v)

    def _names_callable(self, ref: MRef) -> bool:
        """Does an opaque external name stand for a class / function / module (always true, compared by identity) rather than
        for a VALUE the interpreter does not know?  Names of the analysed package, capitalised last components (classes)
        and names that were called are taken as callables; ``os.name``, ``sys.flags.x`` ... are unknown values."""
        last = ref.name.split(".")[-1].split("::")[-1]
        return "::" in ref.name or ref.name in self.tree.classes or last[:1].isupper() or last.startswith("_") or ref.name in self.tree.modules or "." not in ref.name

    # ------------------------------------------------------------------ statements
    def _exc_kind(self, node: ast.AST | None, env: dict, fn) -> tuple[str, object]:
        if node is None:
            if not self.handling:
                raise ModelRaise("RuntimeError", "No active exception to re-raise")
            cur = self.handling[-1]
            return cur.kind, getattr(cur, "value", None)
        target = node.func if isinstance(node, ast.Call) else node
        if isinstance(target, ast.Name) and target.id in env:
            v = env[target.id]
            if isinstance(v, MObj) and "__exc_kind__" in v.attrs:
                return v.attrs["__exc_kind__"], v
            if isinstance(v, MRef):
                return v.name.split(".")[-1].split("::")[-1], None
            raise ModelError(f"raise of `{target.id}` has no model")
        return unparse(target).split(".")[-1], None

    def _handler_matches(self, h: ast.ExceptHandler, exc: ModelRaise, env: dict, fn) -> bool:
        if h.type is None:
            return True
        types = h.type.elts if isinstance(h.type, ast.Tuple) else [h.type]
        anc = set(exc_ancestors(exc.kind))
        for t in types:
            if isinstance(t, ast.Name) and t.id in env:
                v = env[t.id]
                names = [x.name for x in (v if isinstance(v, tuple) else (v,)) if isinstance(x, MRef)]
            else:
                names = [unparse(t)]
            if any(n.split(".")[-1].split("::")[-1] in anc for n in names):
                return True
        return False

    def stmt(self, st: ast.stmt, env: dict, fn, depth: int):  # noqa: C901, PLR0911, PLR0912
        if isinstance(st, (ast.Global, ast.Nonlocal)):
            raise ModelError(f"`{unparse(st)}`: re-binding of an outer variable is outside the interpreted subset")
        if isinstance(st, ast.Raise):
            kind, value = self._exc_kind(st.exc, env, fn)
            exc = ModelRaise(kind, "raised by the interpreted code")
            exc.value = value  # type: ignore[attr-defined]
            exc.node = st  # type: ignore[attr-defined]
            raise exc
        if isinstance(st, ast.Delete):
            for t in st.targets:
                if isinstance(t, ast.Name):
                    env.pop(t.id, None)
                elif isinstance(t, ast.Subscript):
                    base = self.ev(t.value, env, fn, depth)
                    idx = self.ev(t.slice, env, fn, depth) if not isinstance(t.slice, ast.Slice) else None
                    if isinstance(base, dict) and idx is not None:
                        if idx not in base:
                            raise ModelRaise("KeyError", repr(idx))
                        del base[idx]
                    elif isinstance(base, list) and isinstance(idx, int):
                        self._guard(base.__delitem__, idx)
                    elif isinstance(base, MObj) and "__delitem__" in base.attrs:
                        base.attrs["__delitem__"]([idx], {})
                    else:
                        raise ModelError(f"`{unparse(st)[:50]}` has no model")
                else:
                    raise ModelError(f"`{unparse(st)[:50]}` has no model")
            return None
        if isinstance(st, ast.AugAssign) and type(st.op) in _INPLACE:
            load = ast.copy_location(type(st.target)(**{**{f: getattr(st.target, f) for f in st.target._fields}, "ctx": ast.Load()}), st.target)
            cur = self.ev(load, env, fn, depth)
            if isinstance(cur, (set, dict, list)):
                rhs = self.ev(st.value, env, fn, depth)
                if isinstance(cur, list):
                    if not isinstance(st.op, ast.Add):
                        raise ModelRaise("TypeError", "unsupported operand")
                    cur.extend(self.iterate(rhs))
                    return None
                if isinstance(cur, dict):
                    if not isinstance(st.op, ast.BitOr) or not isinstance(rhs, dict):
                        raise ModelRaise("TypeError", "unsupported operand")
                    cur.update(rhs)
                    return None
                if isinstance(st.op, ast.Add) or not isinstance(rhs, (set, frozenset)):
                    raise ModelRaise("TypeError", "unsupported operand for a set")
                self._guard(getattr(cur, _INPLACE[type(st.op)]), rhs)
                return None
            if isinstance(cur, MObj) and _INPLACE[type(st.op)] in cur.attrs:
                self.assign(st.target, cur.attrs[_INPLACE[type(st.op)]]([self.ev(st.value, env, fn, depth)], {}), env, fn, depth)
                return None
            rhs = self.ev(st.value, env, fn, depth)
            self.assign(st.target, self.binop(st.op, cur, rhs, st), env, fn, depth)
            return None
        if isinstance(st, ast.With):
            return self._with(st, 0, env, fn, depth)
        if isinstance(st, ast.Try):
            return self._try(st, env, fn, depth)
        if isinstance(st, ast.ClassDef):
            raise ModelError(f"local class `{st.name}` is outside the interpreted subset")
        if isinstance(st, ast.FunctionDef) and (st.args.defaults or any(d is not None for d in st.args.kw_defaults)):
            import copy

            frozen = copy.copy(st)
            frozen.args = self._frozen_defaults(st.args, env, fn, depth)
            env[st.name] = _FuncRef(None, frozen, env, fn)
            return None
        return super().stmt(st, env, fn, depth)

    def _cm_call(self, cm, name: str, args: list):
        if isinstance(cm, MObj):
            return self.apply(self.getattr(cm, name), args, {})
        raise ModelError(f"context manager {cm!r} has no model")

    def _with(self, st: ast.With, i: int, env: dict, fn, depth: int):
        if i == len(st.items):
            return self.block(st.body, env, fn, depth)
        item = st.items[i]
        cm = self.ev(item.context_expr, env, fn, depth)
        entered = self._cm_call(cm, "__enter__", [])
        if item.optional_vars is not None:
            self.assign(item.optional_vars, entered, env, fn, depth)
        try:
            sig = self._with(st, i + 1, env, fn, depth)
        except ModelRaise as exc:
            if self.truth(self._cm_call(cm, "__exit__", [exc.kind, exc, None])):
                return None
            raise
        self._cm_call(cm, "__exit__", [None, None, None])
        return sig

    def _try(self, st: ast.Try, env: dict, fn, depth: int):
        sig = None
        try:
            try:
                sig = self.block(st.body, env, fn, depth)
                if sig is None and st.orelse:
                    sig = self.block(st.orelse, env, fn, depth)
            except ModelRaise as exc:
                for h in st.handlers:
                    if self._handler_matches(h, exc, env, fn):
                        if h.name:
                            value = getattr(exc, "value", None)
                            env[h.name] = value if isinstance(value, MObj) else MObj(f"exception {exc.kind}", {"__exc_kind__": exc.kind, "args": ()}, kinds=set(exc_ancestors(exc.kind)), open=True)
                        self.handling.append(exc)
                        try:
                            sig = self.block(h.body, env, fn, depth)
                        finally:
                            self.handling.pop()
                        break
                else:
                    raise
        except ModelRaise:
            if st.finalbody:
                fsig = self.block(st.finalbody, env, fn, depth)
                if fsig is not None:
                    return fsig
            raise
        if st.finalbody:
            fsig = self.block(st.finalbody, env, fn, depth)
            if fsig is not None:
                return fsig
        return sig

    # ------------------------------------------------------------------ expressions
    def _frozen_defaults(self, args: ast.arguments, env: dict, fn, depth: int) -> ast.arguments:
        """Default values are evaluated when the function is DEFINED (``lambda x, i=i: ...`` in a loop)."""
        import copy

        new = copy.copy(args)
        new.defaults = [ast.Constant(value=self.ev(d, env, fn, depth)) for d in args.defaults]
        new.kw_defaults = [None if d is None else ast.Constant(value=self.ev(d, env, fn, depth)) for d in args.kw_defaults]
        return new

    def _comprehension(self, node, env: dict, fn, depth: int, walrus: set[str]):
        """A comprehension that contains ``:=``: the target is bound in the enclosing scope."""
        results: list = []

        def rec(gens, env_):
            if not gens:
                if isinstance(node, ast.DictComp):
                    results.append((self.ev(node.key, env_, fn, depth), self.ev(node.value, env_, fn, depth)))
                else:
                    results.append(self.ev(node.elt, env_, fn, depth))
                for w in walrus & set(env_):
                    env[w] = env_[w]
                return
            g = gens[0]
            for item in self.iterate(self.ev(g.iter, env_, fn, depth), g.iter):
                env2 = dict(env_)
                self.assign(g.target, item, env2, fn, depth)
                ok = all(self.truth(self.ev(c, env2, fn, depth)) for c in g.ifs)
                for w in walrus & set(env2):
                    env[w] = env2[w]
                if ok:
                    rec(gens[1:], env2)

        rec(list(node.generators), env)
        if isinstance(node, ast.DictComp):
            return dict(results)
        if isinstance(node, ast.SetComp):
            return set(results)
        return results

    def ev(self, node: ast.AST, env: dict, fn, depth: int):  # noqa: C901
        if isinstance(node, (ast.ListComp, ast.GeneratorExp, ast.SetComp, ast.DictComp)):
            walrus = {n.target.id for n in ast.walk(node) if isinstance(n, ast.NamedExpr) and isinstance(n.target, ast.Name)}
            if walrus:
                return self._comprehension(node, env, fn, depth, walrus)
        if isinstance(node, ast.Lambda) and (node.args.defaults or any(d is not None for d in node.args.kw_defaults)):
            return _FuncRef(None, ast.FunctionDef(name="<lambda>", args=self._frozen_defaults(node.args, env, fn, depth), body=[ast.Return(value=node.body)], decorator_list=[]), env, fn)
        if isinstance(node, (ast.Yield, ast.YieldFrom)):
            raise ModelError(f"`{unparse(node)[:40]}` inside an expression is outside the interpreted subset (a yield must be a statement or the right-hand side of an assignment)")
        if isinstance(node, ast.JoinedStr):
            parts = []
            for v in node.values:
                if isinstance(v, ast.Constant):
                    parts.append(str(v.value))
                else:
                    val = self.ev(v.value, env, fn, depth)
                    text = repr(val) if v.conversion == ord("r") and plain(val) else self._str(val)
                    if v.format_spec is not None and plain(val):
                        text = format(val, self.ev(v.format_spec, env, fn, depth))
                    parts.append(text)
            return "".join(parts)
        if isinstance(node, ast.Attribute) and isinstance(node.value, ast.Call) and isinstance(node.value.func, ast.Name) and node.value.func.id == "super" and "super" not in env:
            return self.getattr(self.apply(("builtin", "super"), [self.ev(a, env, fn, depth) for a in node.value.args], {}), node.attr, node)
        if isinstance(node, ast.Name) and node.id not in env and node.id in {"True", "False", "None"}:
            return {"True": True, "False": False, "None": None}[node.id]
        if isinstance(node, ast.UnaryOp) and isinstance(node.op, (ast.USub, ast.UAdd)):
            v = self.ev(node.operand, env, fn, depth)
            if isinstance(v, MObj):
                if isinstance(node.op, ast.UAdd):
                    return v
                if "__neg__" in v.attrs:
                    return v.attrs["__neg__"]([], {})
                raise ModelError(f"unary minus of {v!r} has no model")
            if isinstance(v, (int, float, complex)):
                return -v if isinstance(node.op, ast.USub) else v
            raise ModelRaise("TypeError", "bad operand type for unary -")
        return super().ev(node, env, fn, depth)
