"""E7 - mutation harness: in-memory variants of the *current* tree.

A mutant is a textual edit of one source file (``old`` must occur exactly ``count``
times, otherwise the mutant is *not applicable* to the tree as found and is skipped -
the tree may legitimately have changed).  The edited source set is parsed into a new
``Tree`` and handed to the very same rule code.  Nothing is written to disk and nothing
is executed.

* ``expect="violation"`` - a property-breaking edit that still compiles: the checker
  must report a violation that the unmodified tree does not have (and name the construct).
* ``expect="silent"`` - a behaviour-preserving edit: the checker must report nothing new
  and must not fall over.
"""

from __future__ import annotations

import ast
import os
import random
from concurrent.futures import ProcessPoolExecutor
from dataclasses import dataclass, field

from .loader import AnalysisError, Tree, read_sources, REPO


@dataclass
class Mutant:
    pid: str
    name: str
    file: str  # relpath below the repo root
    old: str
    new: str
    expect: str = "violation"  # or "silent"
    count: int = 1
    must_mention: str | None = None  # substring expected in the violation text/key
    edits: list[tuple[str, str, str]] = field(default_factory=list)  # extra (file, old, new)


def apply(sources: dict[str, str], m: Mutant) -> dict[str, str] | None:
    out = dict(sources)
    for file, old, new in [(m.file, m.old, m.new), *m.edits]:
        if file not in out:
            return None
        n = out[file].count(old)
        if n != (m.count if file == m.file and old == m.old else 1):
            return None
        out[file] = out[file].replace(old, new)
        try:
            ast.parse(out[file])
        except SyntaxError:
            return None
    return out


def _run_one(args) -> dict:
    pid, sources, mutant = args
    from .cli import run_property

    res = {"name": mutant.name, "expect": mutant.expect, "pid": pid}
    mutated = apply(sources, mutant)
    if mutated is None:
        res["status"] = "not-applicable"
        return res
    try:
        tree = Tree(mutated, root="<mutant>")
    except AnalysisError as exc:
        res.update(status="analysis-error", error=str(exc))
        return res
    code, ctx = run_property(pid, "quick", 0, tree, quiet=True, write=False)
    res["code"] = code
    res["violations"] = [(i.rule, i.key, i.where, i.what[:600]) for i in ctx.instances if i.verdict in {"violation", "known"}]
    res["error"] = next((None for _ in ()), None)
    if code == 2:
        res["status"] = "analysis-error"
    else:
        res["status"] = "ran"
    return res


def base_violation_keys(pid: str, sources: dict[str, str]) -> tuple[set, int]:
    from .cli import run_property

    tree = Tree(sources, root="<base>")
    code, ctx = run_property(pid, "quick", 0, tree, quiet=True, write=False)
    return {(i.rule, i.key) for i in ctx.instances if i.verdict in {"violation", "known"}}, code


def run_catalog(pid: str, mutants: list[Mutant], seed: int = 0, jobs: int | None = None, budget: int | None = None) -> list[dict]:
    sources = read_sources(REPO)
    base_keys, base_code = base_violation_keys(pid, sources)
    order = list(mutants)
    random.Random(seed).shuffle(order)
    if budget is not None:
        order = order[:budget]
    jobs = jobs or min(16, os.cpu_count() or 4)
    if len(order) <= 2 or jobs == 1:
        results = [_run_one((pid, sources, m)) for m in order]
    else:
        with ProcessPoolExecutor(max_workers=jobs) as pool:
            results = list(pool.map(_run_one, [(pid, sources, m) for m in order]))
    by_name = {m.name: m for m in order}
    for r in results:
        m = by_name[r["name"]]
        if r["status"] == "not-applicable":
            r["verdict"] = "skipped"
            continue
        new = [v for v in r.get("violations", []) if (v[0], v[1]) not in base_keys]
        r["new_violations"] = new
        if m.expect == "violation":
            if new and (m.must_mention is None or any(m.must_mention in ' '.join(map(str, v)) for v in new)):
                r["verdict"] = "killed"
            elif r["status"] == "analysis-error" and base_code != 2:
                r["verdict"] = "detected-as-analysis-error"
            else:
                r["verdict"] = "SURVIVED"
        else:
            if new or (r["status"] == "analysis-error" and base_code != 2):
                r["verdict"] = "FALSE-ALARM"
            else:
                r["verdict"] = "silent"
    return results


def thorough(ctx, tree, catalog: list[Mutant]) -> None:
    """Run the catalogue as part of the thorough tier and record the outcome."""
    if tree.root != str(REPO):
        return  # never recurse from inside a mutant run
    results = run_catalog(ctx.pid, catalog, seed=ctx.seed)
    summary = {"killed": 0, "silent": 0, "skipped": 0, "detected-as-analysis-error": 0, "SURVIVED": 0, "FALSE-ALARM": 0}
    for r in results:
        summary[r["verdict"]] = summary.get(r["verdict"], 0) + 1
        what = f"mutant `{r['name']}` (expect {r['expect']}): {r['verdict']}"
        if r["verdict"] in {"killed", "silent"}:
            detail = r.get("new_violations", [])[:2]
            ctx.ok("M-SELFTEST", "in-memory variant of the current tree", what, detail)
        elif r["verdict"] == "detected-as-analysis-error":
            ctx.info("M-SELFTEST", "in-memory variant of the current tree", what)
        elif r["verdict"] == "skipped":
            ctx.info("M-SELFTEST", "in-memory variant of the current tree", what + " (edit site not found in the current tree)")
    ctx.stats["selftest"] = summary
    bad = [r for r in results if r["verdict"] in {"SURVIVED", "FALSE-ALARM"}]
    if bad:
        raise AnalysisError(
            "checker self-test failed: " + "; ".join(f"{r['name']}: {r['verdict']} {r.get('new_violations', [])[:1]}" for r in bad)
        )
