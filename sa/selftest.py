"""E7 - mutation harness: in-memory variants of the *current* tree.

A mutant is a textual edit of one source file (``old`` must occur exactly ``count``
times, otherwise the mutant is *not applicable* to the tree as found and is skipped -
the tree may legitimately have changed).  The edited source set is parsed into a new
``Tree`` and handed to the very same rule code.  Nothing is written to disk and nothing
is executed.

* ``expect="violation"`` - a property-breaking edit that still compiles: the checker
  must report a violation that the unmodified tree does not have (and name the construct).
* ``expect="silent"`` - a behaviour-preserving edit: the checker must report nothing new
  and must not fall over.
"""

from __future__ import annotations

import ast
import os
import random
from concurrent.futures import ProcessPoolExecutor
from dataclasses import dataclass, field

from .loader import AnalysisError, Tree, read_sources, REPO


@dataclass
class Mutant:
    pid: str
    name: str
    file: str  # relpath below the repo root
    old: str
    new: str
    expect: str = "violation"  # or "silent"
    count: int = 1
    must_mention: str | None = None  # substring expected in the violation text/key
    edits: list[tuple[str, str, str]] = field(default_factory=list)  # extra (file, old, new)


def apply(sources: dict[str, str], m: Mutant) -> dict[str, str] | None:
    out = dict(sources)
    for file, old, new in [(m.file, m.old, m.new), *m.edits]:
        if file not in out:
            return None
        n = out[file].count(old)
        if n != (m.count if file == m.file and old == m.old else 1):
            return None
        out[file] = out[file].replace(old, new)
        try:
            ast.parse(out[file])
        except SyntaxError:
            return None
    return out


def _run_one(args) -> dict:
    pid, sources, mutant = args
    from .cli import run_property

    res = {"name": mutant.name, "expect": mutant.expect, "pid": pid}
    mutated = apply(sources, mutant)
    if mutated is None:
        res["status"] = "not-applicable"
        return res
    try:
        tree = Tree(mutated, root="<mutant>")
    except AnalysisError as exc:
        res.update(status="analysis-error", error=str(exc))
        return res
    code, ctx = run_property(pid, "quick", 0, tree, quiet=True, write=False)
    res["code"] = code
    res["violations"] = [(i.rule, i.key, i.where, i.what[:600]) for i in ctx.instances if i.verdict in {"violation", "known"}]
    res["error"] = next((None for _ in ()), None)
    if code == 2:
        res["status"] = "analysis-error"
    else:
        res["status"] = "ran"
    return res


def base_violation_keys(pid: str, sources: dict[str, str]) -> tuple[set, int]:
    from .cli import run_property

    tree = Tree(sources, root="<base>")
    code, ctx = run_property(pid, "quick", 0, tree, quiet=True, write=False)
    return {(i.rule, i.key) for i in ctx.instances if i.verdict in {"violation", "known"}}, code


def run_catalog(pid: str, mutants: list[Mutant], seed: int = 0, jobs: int | None = None, budget: int | None = None) -> list[dict]:
    sources = read_sources(REPO)
    base_keys, base_code = base_violation_keys(pid, sources)
    order = list(mutants)
    random.Random(seed).shuffle(order)
    if budget is not None:
        order = order[:budget]
    jobs = jobs or min(16, os.cpu_count() or 4)
    if len(order) <= 2 or jobs == 1:
        results = [_run_one((pid, sources, m)) for m in order]
    else:
        with ProcessPoolExecutor(max_workers=jobs) as pool:
            results = list(pool.map(_run_one, [(pid, sources, m) for m in order]))
    by_name = {m.name: m for m in order}
    for r in results:
        m = by_name[r["name"]]
        if r["status"] == "not-applicable":
            r["verdict"] = "skipped"
            continue
        new = [v for v in r.get("violations", []) if (v[0], v[1]) not in base_keys]
        r["new_violations"] = new
        if m.expect == "violation":
            if new and (m.must_mention is None or any(m.must_mention in ' '.join(map(str, v)) for v in new)):
                r["verdict"] = "killed"
            elif r["status"] == "analysis-error" and base_code != 2:
                r["verdict"] = "detected-as-analysis-error"
            else:
                r["verdict"] = "SURVIVED"
        elif m.expect == "undecided":
            # a variant the rule must neither pass nor report: it has to say that it cannot decide (exit 2)
            if new:
                r["verdict"] = "FALSE-ALARM"
            elif r["status"] == "analysis-error":
                r["verdict"] = "silent"
            else:
                r["verdict"] = "SURVIVED"
        else:
            if new or (r["status"] == "analysis-error" and base_code != 2):
                r["verdict"] = "FALSE-ALARM"
            else:
                r["verdict"] = "silent"
    return results


class Renamer(ast.NodeTransformer):
    def __init__(self, names: set[str]):
        self.names = names

    def visit_Name(self, node: ast.Name):
        if node.id in self.names:
            return ast.copy_location(ast.Name(id=node.id + "_r", ctx=node.ctx), node)
        return node

    def visit_ExceptHandler(self, node):
        self.generic_visit(node)
        if node.name in self.names:
            node.name = node.name + "_r"
        return node


def rename_locals(src: str) -> str:
    tree = ast.parse(src)
    nested = {id(inner) for outer in ast.walk(tree) if isinstance(outer, (ast.FunctionDef, ast.AsyncFunctionDef))
              for inner in ast.walk(outer) if inner is not outer and isinstance(inner, (ast.FunctionDef, ast.AsyncFunctionDef))}
    for fn in [n for n in ast.walk(tree) if isinstance(n, (ast.FunctionDef, ast.AsyncFunctionDef)) and id(n) not in nested]:
        # only top-level functions / methods: nested ones are renamed with their parent
        params = set()
        declared = set()
        for n in ast.walk(fn):
            if isinstance(n, (ast.FunctionDef, ast.AsyncFunctionDef, ast.Lambda)):
                a = n.args
                params |= {x.arg for x in [*a.posonlyargs, *a.args, *a.kwonlyargs]}
                if a.vararg:
                    params.add(a.vararg.arg)
                if a.kwarg:
                    params.add(a.kwarg.arg)
                if not isinstance(n, ast.Lambda) and n is not fn:
                    declared.add(n.name)
            if isinstance(n, (ast.Global, ast.Nonlocal)):
                declared |= set(n.names)
            if isinstance(n, (ast.Import, ast.ImportFrom)):
                declared |= {(al.asname or al.name).split(".")[0] for al in n.names}
            if isinstance(n, ast.ClassDef):
                declared.add(n.name)
        stores = {n.id for n in ast.walk(fn) if isinstance(n, ast.Name) and isinstance(n.ctx, ast.Store)}
        names = stores - params - declared
        if names:
            Renamer(names).visit(fn)
    return ast.unparse(tree)


class _FlipIfElse(ast.NodeTransformer):
    """if c: A else: B  ->  if not c: B else: A   (plain if/else only, elif chains are left alone)"""

    def visit_If(self, node):  # noqa: N802
        self.generic_visit(node)
        if node.orelse and not (len(node.orelse) == 1 and isinstance(node.orelse[0], ast.If)):
            test = node.test
            new_test = test.operand if isinstance(test, ast.UnaryOp) and isinstance(test.op, ast.Not) else ast.UnaryOp(op=ast.Not(), operand=test)
            return ast.copy_location(ast.If(test=new_test, body=node.orelse, orelse=node.body), node)
        return node


class _ReturnTemp(ast.NodeTransformer):
    """return E  ->  _ret = E; return _ret   (E not a plain name / constant)"""

    def visit_FunctionDef(self, node):  # noqa: N802
        self.generic_visit(node)
        node.body = self._rewrite(node.body)
        return node

    def _rewrite(self, body):
        out = []
        for st in body:
            if not isinstance(st, (ast.FunctionDef, ast.ClassDef, ast.AsyncFunctionDef)):
                for fld in ("body", "orelse", "finalbody"):
                    if isinstance(getattr(st, fld, None), list):
                        setattr(st, fld, self._rewrite(getattr(st, fld)))
                for h in getattr(st, "handlers", []) or []:
                    h.body = self._rewrite(h.body)
            if isinstance(st, ast.Return) and st.value is not None and not isinstance(st.value, (ast.Name, ast.Constant)):
                out.append(ast.copy_location(ast.Assign(targets=[ast.Name(id="_ret", ctx=ast.Store())], value=st.value), st))
                out.append(ast.copy_location(ast.Return(value=ast.Name(id="_ret", ctx=ast.Load())), st))
            else:
                out.append(st)
        return out


class _SwapEq(ast.NodeTransformer):
    """a == b -> b == a ; a != b -> b != a"""

    def visit_Compare(self, node):  # noqa: N802
        self.generic_visit(node)
        if len(node.ops) == 1 and isinstance(node.ops[0], (ast.Eq, ast.NotEq)):
            return ast.copy_location(ast.Compare(left=node.comparators[0], ops=node.ops, comparators=[node.left]), node)
        return node


def _transform(src: str, transformer) -> str:
    t = transformer().visit(ast.parse(src))
    ast.fix_missing_locations(t)
    return ast.unparse(t)


def neutral_variants(sources: dict[str, str]) -> dict[str, dict[str, str]]:
    """Whole-repository behaviour-preserving rewrites: ast round trip (layout, comments, line
    numbers change), alpha-renaming of every local variable, every if/else flipped under the negated
    condition, every `return E` through a temporary, both sides of every ==/!= swapped."""
    return {
        "roundtrip": {k: ast.unparse(ast.parse(v)) for k, v in sources.items()},
        "rename": {k: rename_locals(v) for k, v in sources.items()},
        "flip-if-else": {k: _transform(v, _FlipIfElse) for k, v in sources.items()},
        "return-through-temporary": {k: _transform(v, _ReturnTemp) for k, v in sources.items()},
        "swap-equality-operands": {k: _transform(v, _SwapEq) for k, v in sources.items()},
    }


def neutral_sweep(ctx) -> None:
    """The verdicts of the check must not depend on layout or on the names of locals."""
    from .cli import run_property

    sources = read_sources(REPO)
    base_tree = Tree(sources, root="<base>")
    bcode, bctx = run_property(ctx.pid, "quick", 0, base_tree, quiet=True, write=False)
    base = (bcode, len(bctx.obligations()), sorted((i.rule, i.verdict) for i in bctx.obligations()))
    for name, variant in neutral_variants(sources).items():
        code, vctx = run_property(ctx.pid, "quick", 0, Tree(variant, root=f"<{name}>"), quiet=True, write=False)
        got = (code, len(vctx.obligations()), sorted((i.rule, i.verdict) for i in vctx.obligations()))
        if got != base:
            raise AnalysisError(f"checker self-test failed: verdicts change under the behaviour-preserving rewrite `{name}`: exit {got[0]} / {got[1]} instances (base exit {base[0]} / {base[1]})")
        ctx.ok("M-NEUTRAL", "whole-repository rewrite of the current tree", f"`{name}` rewrite of all {len(variant)} modules: same exit code, same {got[1]} rule instances and verdicts")


def thorough(ctx, tree, catalog: list[Mutant]) -> None:
    """Run the catalogue as part of the thorough tier and record the outcome."""
    if tree.root != str(REPO):
        return  # never recurse from inside a mutant run
    neutral_sweep(ctx)
    run_seeded_in_memory(ctx)
    from .neutraltest import run_neutral_in_memory

    run_neutral_in_memory(ctx)
    results = run_catalog(ctx.pid, catalog, seed=ctx.seed)
    summary = {"killed": 0, "silent": 0, "skipped": 0, "detected-as-analysis-error": 0, "SURVIVED": 0, "FALSE-ALARM": 0}
    for r in results:
        summary[r["verdict"]] = summary.get(r["verdict"], 0) + 1
        what = f"mutant `{r['name']}` (expect {r['expect']}): {r['verdict']}"
        if r["verdict"] in {"killed", "silent"}:
            detail = r.get("new_violations", [])[:2]
            ctx.ok("M-SELFTEST", "in-memory variant of the current tree", what, detail)
        elif r["verdict"] == "detected-as-analysis-error":
            ctx.info("M-SELFTEST", "in-memory variant of the current tree", what)
        elif r["verdict"] == "skipped":
            ctx.info("M-SELFTEST", "in-memory variant of the current tree", what + " (edit site not found in the current tree)")
    ctx.stats["selftest"] = summary
    bad = [r for r in results if r["verdict"] in {"SURVIVED", "FALSE-ALARM"}]
    if bad:
        raise AnalysisError(
            "checker self-test failed: " + "; ".join(f"{r['name']}: {r['verdict']} {r.get('new_violations', [])[:1]}" for r in bad)
        )


# ---------------------------------------------------------------- seeded changes (patch files)
def apply_unified_diff(sources: dict[str, str], diff: str) -> dict[str, str] | None:
    """Apply a `git diff` to the in-memory sources (exact context match; None if a hunk does not
    apply, e.g. because the function was edited since the change was recorded)."""
    import re

    out = dict(sources)
    cur = None
    hunks: list[tuple[str, int, list[str], list[str]]] = []
    old: list[str] = []
    new: list[str] = []
    start = 0

    def flush():
        nonlocal old, new
        if cur is not None and (old or new):
            hunks.append((cur, start, old, new))
        old, new = [], []

    for line in diff.splitlines():
        if line.startswith("diff --git"):
            flush()
            cur = None
        elif line.startswith("+++ "):
            path = line[4:].split("\t")[0].strip()
            cur = path[2:] if path.startswith("b/") else path
        elif line.startswith("--- ") or line.startswith("index ") or line.startswith("new file") or line.startswith("deleted file"):
            continue
        elif line.startswith("@@"):
            flush()
            m = re.match(r"@@ -(\d+)", line)
            start = int(m.group(1)) if m else 0
        elif cur is not None:
            if line.startswith("+"):
                new.append(line[1:])
            elif line.startswith("-"):
                old.append(line[1:])
            elif line.startswith(" ") or line == "":
                old.append(line[1:])
                new.append(line[1:])
            elif line.startswith("\\"):
                continue
    flush()
    offset: dict[str, int] = {}
    for path, start, old, new in hunks:
        if path not in out:
            if path.startswith("src/") and path.endswith(".py") and not old:
                out[path] = "\n".join(new) + "\n"
                continue
            if not path.startswith("src/"):
                continue  # tests / docs are not part of the analysed tree
            return None
        lines = out[path].split("\n")
        n = len(old)
        cands = [i for i in range(len(lines) - n + 1) if lines[i : i + n] == old]
        if not cands:
            return None
        want = start - 1 + offset.get(path, 0)
        i = min(cands, key=lambda c: abs(c - want))
        lines[i : i + n] = new
        offset[path] = offset.get(path, 0) + len(new) - n
        out[path] = "\n".join(lines)
    return out


def seeded_changes(pid: str) -> list[dict]:
    import json
    from pathlib import Path

    root = Path(__file__).resolve().parent.parent / "seeded"
    out = []
    if not root.is_dir():
        return out
    for d in sorted(root.iterdir()):
        meta_p, patch_p = d / "meta.json", d / "patch.diff"
        if not (meta_p.exists() and patch_p.exists()):
            continue
        meta = json.loads(meta_p.read_text())
        if meta.get("property") == pid or pid in meta.get("also_caught_by", {}):
            out.append({"name": d.name, "meta": meta, "diff": patch_p.read_text()})
    return out


def run_seeded_in_memory(ctx) -> None:
    """Thorough tier: every recorded seeded change of this property (a realistic change made by an
    independent agent, see /verif/seeded/<name>/) is applied to the current tree in memory; the
    check must react as recorded in meta.json (`expected`: violation | analysis-error | missed)."""
    from .cli import run_property

    sources = read_sources(REPO)
    base_keys, base_code = base_violation_keys(ctx.pid, sources)
    bad = []
    for sc in seeded_changes(ctx.pid):
        meta = sc["meta"]
        expected = meta.get("expected", {}).get(ctx.pid) if isinstance(meta.get("expected"), dict) else meta.get("expected")
        if expected is None:
            continue
        patched = apply_unified_diff(sources, sc["diff"])
        if patched is None:
            ctx.info("M-SEEDED", f"seeded/{sc['name']}", f"seeded change `{sc['name']}` no longer applies to the current tree (skipped)")
            continue
        try:
            tree = Tree(patched, root=f"<seeded {sc['name']}>")
        except SyntaxError as exc:
            bad.append(f"{sc['name']}: patched tree does not parse ({exc})")
            continue
        code, vctx = run_property(ctx.pid, "quick", 0, tree, quiet=True, write=False)
        new = [(i.rule, i.key) for i in vctx.instances if i.verdict == "violation" and (i.rule, i.key) not in base_keys]
        got = "violation" if new else "analysis-error" if code == 2 else "missed"
        what = f"seeded change `{sc['name']}` ({meta.get('title', '')[:80]}): expected {expected}, got {got}" + (f" [{', '.join(sorted({r for r, _ in new}))}]" if new else "")
        if got == expected or (expected == "analysis-error" and got == "violation"):
            ctx.ok("M-SEEDED", f"seeded/{sc['name']}/patch.diff", what)
        else:
            bad.append(what)
    if bad:
        raise AnalysisError("checker self-test failed on recorded seeded changes: " + "; ".join(bad))
