"""Behaviour-preserving normal form applied to every module when it is loaded.

Rules are written against one spelling of an idiom; a maintainer may use another.  Instead of
teaching every rule every spelling, the loader rewrites the tree into ONE spelling first.  Each
rewrite preserves the behaviour of the program (stated per rewrite) and keeps source positions, so
reports still point at the original line.

N-RET    ``t = E; return t``  ->  ``return E``     (t a plain local name assigned in the statement
         directly before the return and not captured by a nested function: the assignment has no
         other observer)
N-NOT    ``if not c: A else: B``  ->  ``if c: B else: A``  and  ``x if not c else y`` -> ``y if c else x``
         (no elif chain is reordered: only a plain else is swapped)
N-IFEXP  ``return a if c else b`` -> ``if c: return a / else: return b``; ``x = a if c else b`` (also ``x: T = ...``) likewise
         (when the conditional expression is the whole right-hand side); also ``return f(x, k=a if c else b)`` ->
         ``if c: return f(x, k=a) / else: return f(x, k=b)`` (a direct argument of the returned / assigned call, test
         without calls or subscripts, so that evaluating it before the other arguments cannot be observed)
N-TESTVAR ``t = E; if t: ...`` -> ``if E: ...`` when ``t`` is read nowhere else in the function
N-LOOP   ``acc = []; for x in xs: [t = f(x);] acc.append(g(t))``  ->  ``acc = [g(f(x)) for x in xs]`` - also
         nested loops, one ``if`` filter without else, ``acc += [e]``, ``d = {}; d[k] = v`` (dict
         comprehension; ``d = OrderedDict()`` gives ``OrderedDict({k: v for ...})``) and ``s = set(); s.add(e)``.  A body ``if c: d[k] = a else: d[k] = b`` whose arms each
         feed the accumulator exactly once becomes the element ``k: a if c else b`` (same for append/add, elif
         chains nest; the test is evaluated once per element as before); ``if c: A; continue`` followed by REST is
         read as ``if c: A else: REST`` and a guard ``if c: continue`` as the filter ``if not c``.  Temporaries of the body are inlined when they are
         assigned once, read once and not used outside the loop.  Preserves behaviour for side-effect
         free element expressions (the package's are: constructors of SymPy objects and pure helpers);
         the accumulator must not be mentioned between its creation and the loop
N-OVERWRITE ``d = {x: V0 for x in S}; for y in S: [if not c: continue] d[y] = V1``  ->  ``d = {y: V1 if c else V0' for y in S}``
         ("initialise every key, then overwrite some").  Side conditions: the key is the bare loop variable (so an element
         decides its own entry and later elements cannot overwrite it with another value; equal elements give equal
         values because c, V0, V1 are side-effect free expressions of the element); S is a local bound once to a
         container that can be iterated twice (a display / comprehension / ``set(..)`` / ``sorted(..)`` ... or the result of a
         function of the same module annotated to return ``set[..]`` / ``list[..]`` / ``tuple[..]`` / ``dict[..]`` / ``frozenset[..]``) and is
         not mentioned in between; V0 contains no call; c and V1 do not read d; the function has no ``try`` (a handler
         could observe the half-overwritten mapping) and no nested function captures d.  Key order is that of S in both forms
N-PROP   inside a class, a read of a PRIVATE property ``self._p`` whose body is a single ``return E`` (E mentioning only
         ``self`` and builtins) is replaced by ``E`` in the other methods of the class (what the read evaluates to; a
         subclass overriding a private property of its base is not considered)
N-WALRUS ``if (x := E) is not None:``  ->  ``x = E; if x is not None:`` (assignment expression that is the first thing the
         test evaluates: the test itself, under ``not``, the left operand of its comparison, or the first operand of an
         ``and`` / ``or`` - applied again after N-IFEXP, so ``v = a if (x := E) ... else b`` is covered)
N-SUPPRESS ``with contextlib.suppress(E): BODY``  ->  ``try: BODY / except E: pass`` (what the context manager does)
N-CMP    ``K == x`` -> ``x == K`` for a literal K (same for ``!=``); for two non-literal operands the
         operand with the smaller source text goes left.  ``==``/``!=`` of the objects this package
         compares (ints, strings, symbols, tuples, sets) are symmetric; operands are not re-evaluated,
         and both operands of every such comparison in the package are side-effect free
         (checked: a call that is not on the PURE list keeps the comparison as written)
N-STAR   ``f(*(e for x in xs))`` -> ``f(*[e for x in xs])``: a starred generator expression in a call is
         exhausted, in order, at exactly the point of the argument evaluation at which the list would be
         built; the callee receives the same positional arguments (the package spells it with a list)
"""

from __future__ import annotations

import ast

PURE_CALLS = {"len", "set", "tuple", "sorted", "frozenset", "list", "type", "str", "int", "float", "abs", "isinstance", "get_parent_id", "get_sibling_state_id", "id"}


def _is_literal(e: ast.AST) -> bool:
    if isinstance(e, ast.Constant):
        return True
    if isinstance(e, ast.UnaryOp) and isinstance(e.op, (ast.USub, ast.UAdd)) and isinstance(e.operand, ast.Constant):
        return True
    if isinstance(e, (ast.Tuple, ast.List, ast.Set)) and all(_is_literal(x) for x in e.elts):
        return True
    return False


def _pure(e: ast.AST) -> bool:
    for n in ast.walk(e):
        if isinstance(n, ast.Call):
            f = n.func
            name = f.id if isinstance(f, ast.Name) else f.attr if isinstance(f, ast.Attribute) else None
            if name not in PURE_CALLS:
                return False
        if isinstance(n, (ast.NamedExpr, ast.Await, ast.Yield, ast.YieldFrom)):
            return False
    return True


class _ListSlot:
    """Assignable view of one element of a list of AST nodes (so that `setattr(holder, field, new)` works for it)."""

    def __init__(self, items: list, index: int) -> None:
        object.__setattr__(self, "_items", items)
        object.__setattr__(self, "_index", index)

    def __setattr__(self, name: str, value) -> None:
        self._items[self._index] = value


class _Normalizer(ast.NodeTransformer):
    # ---- N-CMP
    def visit_Compare(self, node: ast.Compare):
        self.generic_visit(node)
        if len(node.ops) == 1 and isinstance(node.ops[0], (ast.Eq, ast.NotEq)):
            a, b = node.left, node.comparators[0]
            swap = False
            if _is_literal(a) and not _is_literal(b):
                swap = True
            elif not _is_literal(a) and not _is_literal(b) and _pure(a) and _pure(b):
                swap = ast.unparse(b) < ast.unparse(a)
            if swap:
                return ast.copy_location(ast.Compare(left=b, ops=node.ops, comparators=[a]), node)
        return node

    # ---- N-STAR
    def visit_Call(self, node: ast.Call):
        self.generic_visit(node)
        for a in node.args:
            if isinstance(a, ast.Starred) and isinstance(a.value, ast.GeneratorExp):
                a.value = ast.copy_location(ast.ListComp(elt=a.value.elt, generators=a.value.generators), a.value)
        return node

    # ---- N-PROP
    def visit_ClassDef(self, node: ast.ClassDef):
        import copy

        props: dict[str, ast.AST] = {}
        for st in node.body:
            if (isinstance(st, ast.FunctionDef) and st.name.startswith("_") and not st.name.startswith("__")
                    and any(ast.unparse(d) in {"property", "functools.cached_property", "cached_property"} for d in st.decorator_list)
                    and len(st.args.args) == 1 and not st.args.defaults):
                body = [b for b in st.body if not (isinstance(b, ast.Expr) and isinstance(b.value, ast.Constant))]
                if len(body) == 1 and isinstance(body[0], ast.Return) and body[0].value is not None:
                    me = st.args.args[0].arg
                    value = body[0].value
                    # the value may only mention `self` (no locals), and no other private property (no chains)
                    names = {n.id for n in ast.walk(value) if isinstance(n, ast.Name) and isinstance(n.ctx, ast.Load)}
                    bound = {n.id for n in ast.walk(value) if isinstance(n, ast.Name) and isinstance(n.ctx, ast.Store)}
                    if me == "self" and names - bound - {"self"} <= set(dir(__builtins__) if not isinstance(__builtins__, dict) else __builtins__):
                        props[st.name] = value
        if props:
            class _Inline(ast.NodeTransformer):
                def visit_Attribute(self, n):  # noqa: N802
                    self.generic_visit(n)
                    if isinstance(n.ctx, ast.Load) and isinstance(n.value, ast.Name) and n.value.id == "self" and n.attr in props:
                        return ast.copy_location(copy.deepcopy(props[n.attr]), n)
                    return n

            for st in node.body:
                if isinstance(st, ast.FunctionDef) and st.name not in props:
                    st.body = [_Inline().visit(b) for b in st.body]
        self.generic_visit(node)
        return node

    # ---- N-SUPPRESS
    def visit_With(self, node: ast.With):
        self.generic_visit(node)
        if len(node.items) == 1 and node.items[0].optional_vars is None:
            ce = node.items[0].context_expr
            if isinstance(ce, ast.Call) and not ce.keywords and ast.unparse(ce.func) in {"contextlib.suppress", "suppress"} and ce.args:
                etype = ce.args[0] if len(ce.args) == 1 else ast.Tuple(elts=list(ce.args), ctx=ast.Load())
                handler = ast.ExceptHandler(type=etype, name=None, body=[ast.copy_location(ast.Pass(), node)])
                return ast.copy_location(ast.Try(body=node.body, handlers=[ast.copy_location(handler, node)], orelse=[], finalbody=[]), node)
        return node

    # ---- N-NOT
    def visit_If(self, node: ast.If):
        self.generic_visit(node)
        if (isinstance(node.test, ast.UnaryOp) and isinstance(node.test.op, ast.Not) and node.orelse
                and not (len(node.orelse) == 1 and isinstance(node.orelse[0], ast.If))):
            return ast.copy_location(ast.If(test=node.test.operand, body=node.orelse, orelse=node.body), node)
        return node

    def visit_IfExp(self, node: ast.IfExp):
        self.generic_visit(node)
        if isinstance(node.test, ast.UnaryOp) and isinstance(node.test.op, ast.Not):
            return ast.copy_location(ast.IfExp(test=node.test.operand, body=node.orelse, orelse=node.body), node)
        return node

    # ---- N-RET
    def _fold_returns(self, body: list[ast.stmt], captured: set[str]) -> list[ast.stmt]:
        out: list[ast.stmt] = []
        for st in body:
            if (isinstance(st, ast.Return) and isinstance(st.value, ast.Name) and out
                    and isinstance(out[-1], ast.Assign) and len(out[-1].targets) == 1 and isinstance(out[-1].targets[0], ast.Name)
                    and out[-1].targets[0].id == st.value.id and st.value.id not in captured
                    and not any(isinstance(n, ast.Name) and n.id == st.value.id for n in ast.walk(out[-1].value))):
                assign = out.pop()
                out.append(ast.copy_location(ast.Return(value=assign.value), assign))
            else:
                out.append(st)
        return out

    def _blocks(self, node: ast.AST, captured: set[str]) -> None:
        for field in ("body", "orelse", "finalbody"):
            block = getattr(node, field, None)
            if isinstance(block, list) and block and isinstance(block[0], ast.stmt):
                for st in block:
                    if not isinstance(st, (ast.FunctionDef, ast.AsyncFunctionDef, ast.ClassDef)):
                        self._blocks(st, captured)
                block = self._hoist_walrus(block)
                block = [self._desugar_ifexp(st) for st in block]
                block = self._hoist_walrus(block)  # `x = a if (y := E) ... else b` has just become an `if` statement
                for st in block:  # the freshly made branches are blocks too (nothing to fold inside them)
                    pass
                block = self._fold_test_temps(block, self._loads)
                block = self._fold_loops(block)
                setattr(node, field, self._fold_returns(block, captured))
        for h in getattr(node, "handlers", []) or []:
            self._blocks(h, captured)
        for c in getattr(node, "cases", []) or []:
            self._blocks(c, captured)

    # ---- N-IFEXP / N-TESTVAR (statement level, applied to every block of a function)
    @staticmethod
    def _desugar_ifexp(st: ast.stmt) -> ast.stmt:
        """`return a if c else b` -> `if c: return a / else: return b`; `x = a if c else b` likewise."""
        if isinstance(st, ast.Return) and isinstance(st.value, ast.IfExp):
            e = st.value
            return ast.copy_location(ast.If(test=e.test, body=[ast.copy_location(ast.Return(value=e.body), st)],
                                            orelse=[ast.copy_location(ast.Return(value=e.orelse), st)]), st)
        if isinstance(st, ast.Assign) and isinstance(st.value, ast.IfExp) and len(st.targets) == 1 and isinstance(st.targets[0], ast.Name):
            e = st.value
            mk = lambda v: ast.copy_location(ast.Assign(targets=[ast.Name(id=st.targets[0].id, ctx=ast.Store())], value=v), st)  # noqa: E731
            return ast.copy_location(ast.If(test=e.test, body=[mk(e.body)], orelse=[mk(e.orelse)]), st)
        if isinstance(st, ast.AnnAssign) and isinstance(st.value, ast.IfExp) and isinstance(st.target, ast.Name) and st.simple:
            # `x: T = a if c else b`: the annotation of a local has no run-time effect
            e = st.value
            mk2 = lambda v: ast.copy_location(ast.AnnAssign(target=ast.Name(id=st.target.id, ctx=ast.Store()), annotation=st.annotation, value=v, simple=1), st)  # noqa: E731
            return ast.copy_location(ast.If(test=e.test, body=[mk2(e.body)], orelse=[mk2(e.orelse)]), st)
        # N-IFEXP (argument): `return f(x, k=a if c else b)` -> `if c: return f(x, k=a) / else: return f(x, k=b)` (same for
        # `v = f(...)`), for a test without calls / subscripts: evaluating it before the other arguments is not observable
        value = st.value if isinstance(st, ast.Return) or (isinstance(st, ast.Assign) and len(st.targets) == 1 and isinstance(st.targets[0], ast.Name)) else None
        if isinstance(value, ast.Call):
            import copy

            slots = [("args", i) for i, a in enumerate(value.args) if isinstance(a, ast.IfExp)] + [("keywords", i) for i, k in enumerate(value.keywords) if isinstance(k.value, ast.IfExp)]
            for field, i in slots:
                e = value.args[i] if field == "args" else value.keywords[i].value
                if any(isinstance(n, (ast.Call, ast.Subscript, ast.NamedExpr, ast.Await, ast.Yield, ast.YieldFrom)) for n in ast.walk(e.test)):
                    continue
                arms = []
                for arm in (e.body, e.orelse):
                    new = copy.copy(st)
                    call = copy.copy(value)
                    if field == "args":
                        call.args = [*value.args[:i], arm, *value.args[i + 1:]]
                    else:
                        call.keywords = [*value.keywords[:i], ast.copy_location(ast.keyword(arg=value.keywords[i].arg, value=arm), value.keywords[i]), *value.keywords[i + 1:]]
                    new.value = call
                    arms.append(_Normalizer._desugar_ifexp(new))
                return ast.copy_location(ast.If(test=e.test, body=[arms[0]], orelse=[arms[1]]), st)
        return st

    @staticmethod
    def _hoist_walrus(body: list[ast.stmt]) -> list[ast.stmt]:
        """N-WALRUS: `if (x := E) <op> ...:` -> `x = E; if x <op> ...:` when the assignment expression is the first
        thing the test evaluates (the test itself, the left operand of its comparison, or that under `not`)."""
        out: list[ast.stmt] = []
        for st in body:
            if isinstance(st, ast.If):
                holder, field = st, "test"
                node = st.test
                while (isinstance(node, ast.UnaryOp) and isinstance(node.op, ast.Not)) or isinstance(node, ast.BoolOp):
                    if isinstance(node, ast.BoolOp):
                        # the first operand of `and` / `or` is evaluated first and always
                        first = node.values[0]
                        box = node.values
                        holder, field, node = _ListSlot(box, 0), "value", first
                    else:
                        holder, field, node = node, "operand", node.operand
                if isinstance(node, ast.Compare) and isinstance(node.left, ast.NamedExpr):
                    holder, field, node = node, "left", node.left
                if isinstance(node, ast.NamedExpr) and isinstance(node.target, ast.Name):
                    out.append(ast.copy_location(ast.Assign(targets=[ast.Name(id=node.target.id, ctx=ast.Store())], value=node.value), st))
                    setattr(holder, field, ast.copy_location(ast.Name(id=node.target.id, ctx=ast.Load()), node))
            out.append(st)
        return out

    def _fold_test_temps(self, body: list[ast.stmt], loads: dict[str, int]) -> list[ast.stmt]:
        """`t = E; if t: ...` -> `if E: ...` when t is read nowhere else in the function."""
        out: list[ast.stmt] = []
        for st in body:
            if (isinstance(st, ast.If) and isinstance(st.test, ast.Name) and out and isinstance(out[-1], ast.Assign)
                    and len(out[-1].targets) == 1 and isinstance(out[-1].targets[0], ast.Name)
                    and out[-1].targets[0].id == st.test.id and loads.get(st.test.id, 0) == 1):
                assign = out.pop()
                out.append(ast.copy_location(ast.If(test=assign.value, body=st.body, orelse=st.orelse), st))
            else:
                out.append(st)
        return out

    # ---- N-LOOP: accumulator loops -> comprehensions
    def _inline_body_temps(self, body: list[ast.stmt]) -> list[ast.stmt] | None:
        """`a = E1; b = f(a); acc.append(g(b))` -> `acc.append(g(f(E1)))`: temporaries that are assigned once
        in the loop body, read exactly once later in the same body and nowhere else in the function."""
        import copy

        body = copy.deepcopy(list(body))  # never touch the original statements: the caller may keep them
        changed = True
        while changed and len(body) > 1:
            changed = False
            st = body[0]
            if not (isinstance(st, (ast.Assign, ast.AnnAssign)) and st.value is not None):
                return None
            tgt = st.targets[0] if isinstance(st, ast.Assign) and len(st.targets) == 1 else st.target if isinstance(st, ast.AnnAssign) else None
            if not isinstance(tgt, ast.Name) or self._loads.get(tgt.id, 0) != 1 or self._stores.get(tgt.id, 0) != 1:
                return None
            uses = [n for rest in body[1:] for n in ast.walk(rest) if isinstance(n, ast.Name) and n.id == tgt.id and isinstance(n.ctx, ast.Load)]
            if len(uses) != 1:
                return None
            value = st.value

            class _Sub(ast.NodeTransformer):
                def visit_Name(self, n):  # noqa: N802
                    return value if n is uses[0] else n

            body = [_Sub().visit(rest) for rest in body[1:]]
            changed = True
        return body

    def _as_comprehension(self, loop: ast.For, acc: str, kind: str):
        """(element or (key, value), generators) if the loop only feeds the accumulator."""
        if loop.orelse:
            return None
        body = self._inline_body_temps(self._else_from_continue(list(loop.body)))
        if body is None or len(body) != 1:
            return None
        st = body[0]
        gen = ast.comprehension(target=loop.target, iter=loop.iter, ifs=[], is_async=0)
        if isinstance(st, ast.If) and not st.orelse:
            inner = self._inline_body_temps(st.body)
            if inner is not None and len(inner) == 1:
                gen.ifs.append(st.test)
                st = inner[0]
        if isinstance(st, ast.For):
            inner = self._as_comprehension(st, acc, kind)
            if inner is None:
                return None
            elt, gens = inner
            return elt, [gen, *gens]
        if isinstance(st, ast.If) and st.orelse:
            elt = self._merge_branches(st, acc, kind)
            return None if elt is None else (elt, [gen])
        elt = self._feed(st, acc, kind)
        return None if elt is None else (elt, [gen])

    @classmethod
    def _else_from_continue(cls, stmts: list[ast.stmt]) -> list[ast.stmt]:
        """Loop body `if c: A; continue` + REST  ->  `if c: A else: REST`  (`if c: continue` + REST -> `if not c: REST`):
        the same statements run for every element.  Only used while a loop is being folded."""
        for i, st in enumerate(stmts[:-1]):
            if isinstance(st, ast.If) and not st.orelse and st.body and isinstance(st.body[-1], ast.Continue):
                rest = cls._else_from_continue(stmts[i + 1:])
                if st.body[:-1]:
                    new = ast.If(test=st.test, body=st.body[:-1], orelse=rest)
                else:
                    new = ast.If(test=ast.copy_location(ast.UnaryOp(op=ast.Not(), operand=st.test), st.test), body=rest, orelse=[])
                return [*stmts[:i], ast.copy_location(new, st)]
        return stmts

    def _merge_branches(self, st: ast.If, acc: str, kind: str):
        """`if c: acc[k] = a else: acc[k] = b` -> element `k: a if c else b` (likewise append/add; elif chains
        nest).  Every branch must feed the accumulator exactly once (after inlining its temporaries); the test
        is evaluated once per iteration as before (twice textually only when the keys of a dict differ)."""
        arms = []
        for branch in (st.body, st.orelse):
            b = self._inline_body_temps(branch)
            if b is None or len(b) != 1:
                return None
            one = b[0]
            if isinstance(one, ast.If) and one.orelse:
                arms.append(self._merge_branches(one, acc, kind))
            else:
                arms.append(self._feed(one, acc, kind))
            if arms[-1] is None:
                return None
        if any(isinstance(n, ast.Name) and n.id == acc for n in ast.walk(st.test)):
            return None
        ifexp = lambda a, b: ast.copy_location(ast.IfExp(test=st.test, body=a, orelse=b), st)  # noqa: E731
        if kind == "dict":
            (k1, v1), (k2, v2) = arms
            key = k1 if ast.dump(k1) == ast.dump(k2) else ifexp(k1, k2)
            return key, ifexp(v1, v2)
        return ifexp(arms[0], arms[1])

    def _feed(self, st: ast.stmt, acc: str, kind: str):
        """The element (or (key, value)) that the statement adds to the accumulator, else None."""
        uses_acc = lambda e: any(isinstance(n, ast.Name) and n.id == acc for n in ast.walk(e))  # noqa: E731
        if kind == "list":
            if (isinstance(st, ast.Expr) and isinstance(st.value, ast.Call) and isinstance(st.value.func, ast.Attribute) and st.value.func.attr == "append"
                    and isinstance(st.value.func.value, ast.Name) and st.value.func.value.id == acc and len(st.value.args) == 1 and not st.value.keywords
                    and not uses_acc(st.value.args[0])):
                return st.value.args[0]
            if (isinstance(st, ast.AugAssign) and isinstance(st.op, ast.Add) and isinstance(st.target, ast.Name) and st.target.id == acc
                    and isinstance(st.value, ast.List) and len(st.value.elts) == 1 and not uses_acc(st.value)):
                return st.value.elts[0]
        if kind == "set":
            if (isinstance(st, ast.Expr) and isinstance(st.value, ast.Call) and isinstance(st.value.func, ast.Attribute) and st.value.func.attr == "add"
                    and isinstance(st.value.func.value, ast.Name) and st.value.func.value.id == acc and len(st.value.args) == 1 and not uses_acc(st.value.args[0])):
                return st.value.args[0]
        if kind == "dict":
            if (isinstance(st, ast.Assign) and len(st.targets) == 1 and isinstance(st.targets[0], ast.Subscript) and isinstance(st.targets[0].value, ast.Name)
                    and st.targets[0].value.id == acc and not uses_acc(st.value) and not uses_acc(st.targets[0].slice)):
                return (st.targets[0].slice, st.value)
        return None

    _CONTAINER_CALLS = {"set", "list", "tuple", "sorted", "frozenset", "dict"}

    def _reiterable(self, name: str) -> bool:
        """The local is bound exactly once, to a value that can be iterated any number of times."""
        if self._stores.get(name) != 1 or name in getattr(self, "_params", set()):
            return False
        value = getattr(self, "_single_values", {}).get(name)
        if value is None:
            return False
        if isinstance(value, (ast.List, ast.Set, ast.Dict, ast.Tuple, ast.ListComp, ast.SetComp, ast.DictComp)):
            return True
        if isinstance(value, ast.Call):
            f = value.func
            if isinstance(f, ast.Name) and f.id in self._CONTAINER_CALLS:
                return True
            # a module function, or a method called on self / cls: every definition of that name in this module counts
            callee = f.id if isinstance(f, ast.Name) else f.attr if isinstance(f, ast.Attribute) and isinstance(f.value, ast.Name) and f.value.id in {"self", "cls"} else None
            if callee is not None and callee not in self._stores and callee not in getattr(self, "_params", set()):
                return self._container_returning.get(callee, False)
        return False

    def _fold_overwrites(self, body: list[ast.stmt]) -> list[ast.stmt]:
        """N-OVERWRITE (see the module docstring)."""
        out = list(body)
        if getattr(self, "_has_try", True):
            return out
        i = 0
        while i + 1 < len(out):
            st, loop = out[i], out[i + 1]
            i += 1
            tgt = st.targets[0] if isinstance(st, ast.Assign) and len(st.targets) == 1 else st.target if isinstance(st, ast.AnnAssign) else None
            comp = st.value if isinstance(st, (ast.Assign, ast.AnnAssign)) else None
            if not (isinstance(tgt, ast.Name) and isinstance(comp, ast.DictComp) and isinstance(loop, ast.For)):
                continue
            acc = tgt.id
            if acc in getattr(self, "_captured", set()) or len(comp.generators) != 1:
                continue
            g = comp.generators[0]
            if g.ifs or g.is_async or not isinstance(g.target, ast.Name) or not isinstance(g.iter, ast.Name) or not isinstance(comp.key, ast.Name) or comp.key.id != g.target.id:
                continue
            if any(isinstance(n, ast.Call) for n in ast.walk(comp.value)) or not self._reiterable(g.iter.id):
                continue
            if not (isinstance(loop.iter, ast.Name) and loop.iter.id == g.iter.id and isinstance(loop.target, ast.Name)):
                continue
            import copy

            res = self._as_comprehension(copy.deepcopy(loop), acc, "dict")
            if res is None:
                continue
            (key, v1), gens = res
            if len(gens) != 1 or not (isinstance(key, ast.Name) and key.id == loop.target.id):
                continue
            pieces = [v1, *gens[0].ifs]
            if any(isinstance(n, ast.Name) and n.id in {acc, g.iter.id} and isinstance(n.ctx, ast.Store) for p in pieces for n in ast.walk(p)) or any(
                    isinstance(n, ast.Name) and n.id == acc for p in pieces for n in ast.walk(p)) or not all(_pure_expr(p) for p in pieces):
                continue
            y, x = loop.target.id, g.target.id

            class Rename(ast.NodeTransformer):
                def visit_Name(self, n):  # noqa: N802
                    return ast.copy_location(ast.Name(id=y, ctx=n.ctx), n) if n.id == x else n

            v0 = Rename().visit(copy.deepcopy(comp.value))
            if y != x and any(isinstance(n, ast.Name) and n.id == y for n in ast.walk(comp.value)):
                continue  # the loop variable's name already means something else in V0
            value = v1
            if gens[0].ifs:
                test = gens[0].ifs[0] if len(gens[0].ifs) == 1 else ast.BoolOp(op=ast.And(), values=list(gens[0].ifs))
                value = ast.IfExp(test=test, body=v1, orelse=v0)
            merged = ast.DictComp(key=ast.Name(id=y, ctx=ast.Load()), value=value, generators=[ast.comprehension(target=ast.Name(id=y, ctx=ast.Store()), iter=g.iter, ifs=[], is_async=0)])
            new = ast.copy_location(type(st)(**{**{f: getattr(st, f) for f in st._fields}, "value": ast.copy_location(merged, comp)}), st)
            ast.fix_missing_locations(new)
            out[i - 1 : i + 1] = [new]
        return out

    def _fold_loops(self, body: list[ast.stmt]) -> list[ast.stmt]:
        out = self._fold_overwrites(list(body))
        i = 0
        while i < len(out):
            st = out[i]
            kind = acc = wrapper = None
            value = st.value if isinstance(st, (ast.Assign, ast.AnnAssign)) else None
            tgt = st.targets[0] if isinstance(st, ast.Assign) and len(st.targets) == 1 else st.target if isinstance(st, ast.AnnAssign) else None
            if isinstance(tgt, ast.Name) and value is not None:
                if isinstance(value, ast.List) and not value.elts:
                    kind = "list"
                elif isinstance(value, ast.Dict) and not value.keys:
                    kind = "dict"
                elif isinstance(value, ast.Call) and isinstance(value.func, ast.Name) and value.func.id in {"set", "list", "dict"} and not value.args and not value.keywords:
                    kind = value.func.id
                elif (isinstance(value, ast.Call) and not value.args and not value.keywords
                      and (ast.unparse(value.func).split(".")[-1] == "OrderedDict")):
                    kind, wrapper = "dict", value.func  # OrderedDict(); filled in a loop == OrderedDict({k: v for ...}) (insertion order kept)
                acc = tgt.id
            if kind is not None:
                # the next statement that mentions the accumulator must be the feeding loop
                j = i + 1
                while j < len(out) and not any(isinstance(n, ast.Name) and n.id == acc for n in ast.walk(out[j])):
                    j += 1
                if j < len(out) and isinstance(out[j], ast.For):
                    res = self._as_comprehension(out[j], acc, kind)
                    if res is not None:
                        elt, gens = res
                        if kind == "dict":
                            comp = ast.DictComp(key=elt[0], value=elt[1], generators=gens)
                        elif kind == "set":
                            comp = ast.SetComp(elt=elt, generators=gens)
                        else:
                            comp = ast.ListComp(elt=elt, generators=gens)
                        comp = ast.copy_location(comp, out[j])
                        if wrapper is not None:
                            comp = ast.copy_location(ast.Call(func=wrapper, args=[comp], keywords=[]), out[j])
                        new = ast.copy_location(ast.Assign(targets=[ast.Name(id=acc, ctx=ast.Store())], value=comp), out[j])
                        out[j] = new
                        del out[i]
                        continue
            i += 1
        return out

    def visit_FunctionDef(self, node: ast.FunctionDef):
        self.generic_visit(node)
        captured: set[str] = set()
        for inner in ast.walk(node):
            if inner is not node and isinstance(inner, (ast.FunctionDef, ast.AsyncFunctionDef, ast.Lambda)):
                captured |= {n.id for n in ast.walk(inner) if isinstance(n, ast.Name)}
        loads: dict[str, int] = {}
        for n in ast.walk(node):
            if isinstance(n, ast.Name) and isinstance(n.ctx, ast.Load):
                loads[n.id] = loads.get(n.id, 0) + 1
        self._loads = loads
        stores: dict[str, int] = {}
        for n in ast.walk(node):
            if isinstance(n, ast.Name) and isinstance(n.ctx, ast.Store):
                stores[n.id] = stores.get(n.id, 0) + 1
        self._stores = stores
        self._captured = captured
        self._has_try = any(isinstance(n, ast.Try) for n in ast.walk(node))
        a = node.args
        self._params = {p.arg for p in [*a.posonlyargs, *a.args, *a.kwonlyargs, *([a.vararg] if a.vararg else []), *([a.kwarg] if a.kwarg else [])]}
        self._single_values = {}
        for n in ast.walk(node):
            t = n.targets[0] if isinstance(n, ast.Assign) and len(n.targets) == 1 else n.target if isinstance(n, ast.AnnAssign) and n.value is not None else None
            if isinstance(t, ast.Name) and stores.get(t.id) == 1:
                self._single_values[t.id] = n.value
        self._blocks(node, captured)
        return node


_CONTAINER_ANNOTATIONS = ("set[", "list[", "tuple[", "dict[", "frozenset[", "Set[", "List[", "Tuple[", "Dict[", "FrozenSet[", "OrderedDict[")


def _pure_expr(e: ast.AST) -> bool:
    """No assignment expression / await / yield, and no call other than constructors and pure helpers (the N-LOOP assumption)."""
    return not any(isinstance(n, (ast.NamedExpr, ast.Await, ast.Yield, ast.YieldFrom)) for n in ast.walk(e))


def normalize(tree: ast.Module) -> ast.Module:
    norm = _Normalizer()
    # name of a function / method of this module -> "every definition of that name is annotated to return a container"
    norm._container_returning = {}
    for n in ast.walk(tree):
        if isinstance(n, (ast.FunctionDef, ast.AsyncFunctionDef)):
            ok = n.returns is not None and ast.unparse(n.returns).startswith(_CONTAINER_ANNOTATIONS) and not any(isinstance(x, (ast.Yield, ast.YieldFrom)) for x in ast.walk(n))
            norm._container_returning[n.name] = norm._container_returning.get(n.name, True) and ok
    tree = norm.visit(tree)
    ast.fix_missing_locations(tree)
    return tree
