"""Behaviour-preserving normal form applied to every module when it is loaded.

Rules are written against one spelling of an idiom; a maintainer may use another.  Instead of
teaching every rule every spelling, the loader rewrites the tree into ONE spelling first.  Each
rewrite preserves the behaviour of the program (stated per rewrite) and keeps source positions, so
reports still point at the original line.

N-RET    ``t = E; return t``  ->  ``return E``     (t a plain local name assigned in the statement
         directly before the return and not captured by a nested function: the assignment has no
         other observer)
N-NOT    ``if not c: A else: B``  ->  ``if c: B else: A``  and  ``x if not c else y`` -> ``y if c else x``
         (no elif chain is reordered: only a plain else is swapped)
N-CMP    ``K == x`` -> ``x == K`` for a literal K (same for ``!=``); for two non-literal operands the
         operand with the smaller source text goes left.  ``==``/``!=`` of the objects this package
         compares (ints, strings, symbols, tuples, sets) are symmetric; operands are not re-evaluated,
         and both operands of every such comparison in the package are side-effect free
         (checked: a call that is not on the PURE list keeps the comparison as written)
"""

from __future__ import annotations

import ast

PURE_CALLS = {"len", "set", "tuple", "sorted", "frozenset", "list", "type", "str", "int", "float", "abs", "isinstance", "get_parent_id", "get_sibling_state_id", "id"}


def _is_literal(e: ast.AST) -> bool:
    if isinstance(e, ast.Constant):
        return True
    if isinstance(e, ast.UnaryOp) and isinstance(e.op, (ast.USub, ast.UAdd)) and isinstance(e.operand, ast.Constant):
        return True
    if isinstance(e, (ast.Tuple, ast.List, ast.Set)) and all(_is_literal(x) for x in e.elts):
        return True
    return False


def _pure(e: ast.AST) -> bool:
    for n in ast.walk(e):
        if isinstance(n, ast.Call):
            f = n.func
            name = f.id if isinstance(f, ast.Name) else f.attr if isinstance(f, ast.Attribute) else None
            if name not in PURE_CALLS:
                return False
        if isinstance(n, (ast.NamedExpr, ast.Await, ast.Yield, ast.YieldFrom)):
            return False
    return True


class _Normalizer(ast.NodeTransformer):
    # ---- N-CMP
    def visit_Compare(self, node: ast.Compare):
        self.generic_visit(node)
        if len(node.ops) == 1 and isinstance(node.ops[0], (ast.Eq, ast.NotEq)):
            a, b = node.left, node.comparators[0]
            swap = False
            if _is_literal(a) and not _is_literal(b):
                swap = True
            elif not _is_literal(a) and not _is_literal(b) and _pure(a) and _pure(b):
                swap = ast.unparse(b) < ast.unparse(a)
            if swap:
                return ast.copy_location(ast.Compare(left=b, ops=node.ops, comparators=[a]), node)
        return node

    # ---- N-NOT
    def visit_If(self, node: ast.If):
        self.generic_visit(node)
        if (isinstance(node.test, ast.UnaryOp) and isinstance(node.test.op, ast.Not) and node.orelse
                and not (len(node.orelse) == 1 and isinstance(node.orelse[0], ast.If))):
            return ast.copy_location(ast.If(test=node.test.operand, body=node.orelse, orelse=node.body), node)
        return node

    def visit_IfExp(self, node: ast.IfExp):
        self.generic_visit(node)
        if isinstance(node.test, ast.UnaryOp) and isinstance(node.test.op, ast.Not):
            return ast.copy_location(ast.IfExp(test=node.test.operand, body=node.orelse, orelse=node.body), node)
        return node

    # ---- N-RET
    def _fold_returns(self, body: list[ast.stmt], captured: set[str]) -> list[ast.stmt]:
        out: list[ast.stmt] = []
        for st in body:
            if (isinstance(st, ast.Return) and isinstance(st.value, ast.Name) and out
                    and isinstance(out[-1], ast.Assign) and len(out[-1].targets) == 1 and isinstance(out[-1].targets[0], ast.Name)
                    and out[-1].targets[0].id == st.value.id and st.value.id not in captured
                    and not any(isinstance(n, ast.Name) and n.id == st.value.id for n in ast.walk(out[-1].value))):
                assign = out.pop()
                out.append(ast.copy_location(ast.Return(value=assign.value), assign))
            else:
                out.append(st)
        return out

    def _blocks(self, node: ast.AST, captured: set[str]) -> None:
        for field in ("body", "orelse", "finalbody"):
            block = getattr(node, field, None)
            if isinstance(block, list) and block and isinstance(block[0], ast.stmt):
                for st in block:
                    if not isinstance(st, (ast.FunctionDef, ast.AsyncFunctionDef, ast.ClassDef)):
                        self._blocks(st, captured)
                setattr(node, field, self._fold_returns(block, captured))
        for h in getattr(node, "handlers", []) or []:
            self._blocks(h, captured)
        for c in getattr(node, "cases", []) or []:
            self._blocks(c, captured)

    def visit_FunctionDef(self, node: ast.FunctionDef):
        self.generic_visit(node)
        captured: set[str] = set()
        for inner in ast.walk(node):
            if inner is not node and isinstance(inner, (ast.FunctionDef, ast.AsyncFunctionDef, ast.Lambda)):
                captured |= {n.id for n in ast.walk(inner) if isinstance(n, ast.Name)}
        self._blocks(node, captured)
        return node


def normalize(tree: ast.Module) -> ast.Module:
    tree = _Normalizer().visit(tree)
    ast.fix_missing_locations(tree)
    return tree
