"""E2 - intra-procedural reaching definitions and provenance (syntax directed).

For one function: an environment ``name -> set of Def`` is pushed through the
statement tree.  ``if`` joins both arms, loops are iterated to a fixed point,
``try`` joins body and handlers, comprehensions / lambdas / nested functions get a
child scope.  Container stores (``d[k] = v``, ``x.attr = v``, ``x.append(v)``) are
weak updates of ``x`` so that provenance flows through containers.

Every ``ast.Name`` in load context gets the set of definitions reaching it
(``rd.reaching(name_node)``); ``rd.closure(defs)`` is the transitive dependency set.
"""

from __future__ import annotations

import ast
from dataclasses import dataclass, field
from typing import Iterable

MUTATORS = {
    "append",
    "extend",
    "insert",
    "add",
    "update",
    "setdefault",
    "remove",
    "discard",
    "pop",
    "popitem",
    "clear",
    "sort",
    "reverse",
    "__setitem__",
    "__delitem__",
    "appendleft",
    # in-place operations of SymPy's mutable matrices (and numpy arrays)
    "row_op",
    "col_op",
    "zip_row_op",
    "row_swap",
    "col_swap",
    "row_del",
    "col_del",
    "copyin_matrix",
    "copyin_list",
    "fill",
}


@dataclass(eq=False)
class Def:
    name: str
    node: ast.AST  # the defining statement / parameter / comprehension
    kind: str  # param | assign | for | aug | store | with | except | import | def | comp | lambda
    value: ast.AST | None = None
    deps: set["Def"] = field(default_factory=set)
    index: int | None = None  # position inside a tuple-unpacking target, if any

    @property
    def lineno(self) -> int:
        return getattr(self.node, "lineno", 0)

    def __repr__(self) -> str:
        return f"<{self.name}@{self.lineno}:{self.kind}>"


Env = dict[str, set[Def]]


def _copy(env: Env) -> Env:
    return {k: set(v) for k, v in env.items()}


def _join(*envs: Env) -> Env:
    out: Env = {}
    for e in envs:
        for k, v in e.items():
            out.setdefault(k, set()).update(v)
    return out


class RD:
    def __init__(self, fn: ast.FunctionDef | ast.Lambda, outer: "RD | None" = None) -> None:
        self.fn = fn
        self.outer = outer
        self._defs: dict[tuple, Def] = {}
        self._reach: dict[int, set[Def]] = {}
        self.returns: list[tuple[ast.Return, set[Def]]] = []
        self.children: dict[int, RD] = {}
        self.all_defs_by_name: dict[str, set[Def]] = {}
        self.env_at: dict[int, Env] = {}  # id(stmt) -> env before the statement
        env: Env = {}
        if outer is not None:
            # closures see every definition of the enclosing function (late binding)
            env = {k: set(v) for k, v in outer.all_defs_by_name.items()}
            o = outer.outer
            while o is not None:
                for k, v in o.all_defs_by_name.items():
                    env.setdefault(k, set()).update(v)
                o = o.outer
        args = fn.args
        for a in [*args.posonlyargs, *args.args, *args.kwonlyargs, args.vararg, args.kwarg]:
            if a is not None:
                env[a.arg] = {self._newdef(a.arg, a, "param")}
        if isinstance(fn, ast.Lambda):
            self.lambda_uses = self._uses(fn.body, env)
        else:
            self.final_env = self._block(fn.body, env)
        # nested functions are analysed afterwards with the complete outer scope
        for node, _env in list(self._pending):
            self.children[id(node)] = RD(node, outer=self)

    _pending: list

    def __new__(cls, *a, **k):
        obj = super().__new__(cls)
        obj._pending = []
        obj._loop_stack = []
        return obj

    # ------------------------------------------------------------------ defs
    def _newdef(self, name, node, kind, value=None, deps: Iterable[Def] = (), index=None) -> Def:
        key = (id(node), name, kind, index)
        d = self._defs.get(key)
        if d is None:
            d = Def(name, node, kind, value, set(), index)
            self._defs[key] = d
            self.all_defs_by_name.setdefault(name, set()).add(d)
        d.deps.update(deps)
        return d

    @property
    def defs(self) -> list[Def]:
        return list(self._defs.values())

    def reaching(self, name_node: ast.Name) -> set[Def]:
        r = self._reach.get(id(name_node))
        if r is not None:
            return r
        for child in self.children.values():
            r = child._reach.get(id(name_node))
            if r is not None:
                return r
            rr = child.reaching(name_node)
            if rr:
                return rr
        return set()

    def uses(self, expr: ast.AST) -> set[Def]:
        """Definitions reaching the loads inside ``expr`` (after analysis)."""
        out: set[Def] = set()
        for n in ast.walk(expr):
            if isinstance(n, ast.Name) and isinstance(n.ctx, ast.Load):
                out |= self.reaching(n)
        return out

    def closure(self, defs: Iterable[Def]) -> set[Def]:
        seen: set[Def] = set()
        todo = list(defs)
        while todo:
            d = todo.pop()
            if d in seen:
                continue
            seen.add(d)
            todo.extend(d.deps)
        return seen

    def derives_from(self, expr: ast.AST, pred) -> bool:
        """Does any definition in the dependency closure of ``expr`` satisfy pred?"""
        return any(pred(d) for d in self.closure(self.uses(expr)))

    # ------------------------------------------------------------ expressions
    def _uses(self, expr: ast.AST | None, env: Env) -> set[Def]:
        if expr is None:
            return set()
        out: set[Def] = set()
        self._visit_expr(expr, env, out)
        return out

    def _visit_expr(self, node: ast.AST, env: Env, out: set[Def]) -> None:
        if isinstance(node, ast.Name):
            if isinstance(node.ctx, ast.Load):
                r = env.get(node.id, set())
                self._reach.setdefault(id(node), set()).update(r)
                out |= r
            return
        if isinstance(node, (ast.ListComp, ast.SetComp, ast.GeneratorExp, ast.DictComp)):
            cenv = _copy(env)
            for gen in node.generators:
                deps = self._uses(gen.iter, cenv)
                self._bind(gen.target, cenv, gen, "comp", gen.iter, deps)
                for cond in gen.ifs:
                    out |= self._uses(cond, cenv)
                out |= deps
            if isinstance(node, ast.DictComp):
                out |= self._uses(node.key, cenv)
                out |= self._uses(node.value, cenv)
            else:
                out |= self._uses(node.elt, cenv)
            return
        if isinstance(node, ast.Lambda):
            cenv = _copy(env)
            a = node.args
            for p in [*a.posonlyargs, *a.args, *a.kwonlyargs, a.vararg, a.kwarg]:
                if p is not None:
                    cenv[p.arg] = {self._newdef(p.arg, p, "lambda")}
            out |= self._uses(node.body, cenv)
            return
        if isinstance(node, ast.NamedExpr):
            deps = self._uses(node.value, env)
            self._bind(node.target, env, node, "assign", node.value, deps)
            out |= deps
            return
        if isinstance(node, ast.Call):
            # mutating method call: weak update of the receiver
            for child in ast.iter_child_nodes(node):
                self._visit_expr(child, env, out)
            f = node.func
            if isinstance(f, ast.Attribute) and f.attr in MUTATORS:
                base = _base_name(f.value)
                if base is not None and base in env:
                    deps = set(env[base])
                    for a in [*node.args, *[k.value for k in node.keywords]]:
                        deps |= self._uses(a, env)
                    env[base] = {self._newdef(base, node, "store", node, deps)}
            return
        for child in ast.iter_child_nodes(node):
            self._visit_expr(child, env, out)

    # -------------------------------------------------------------- bindings
    def _bind(self, target, env: Env, node, kind, value, deps, index=None) -> None:
        if isinstance(target, ast.Name):
            env[target.id] = {self._newdef(target.id, node, kind, value, deps, index)}
        elif isinstance(target, (ast.Tuple, ast.List)):
            elts = None
            if isinstance(value, (ast.Tuple, ast.List)) and len(value.elts) == len(target.elts):
                elts = value.elts
            for i, t in enumerate(target.elts):
                if isinstance(t, ast.Starred):
                    t = t.value
                if elts is not None and not any(isinstance(e, ast.Starred) for e in elts):
                    self._bind(t, env, node, kind, elts[i], self._uses(elts[i], env), None)
                else:
                    self._bind(t, env, node, kind, value, deps, i)
        elif isinstance(target, ast.Starred):
            self._bind(target.value, env, node, kind, value, deps, index)
        elif isinstance(target, (ast.Subscript, ast.Attribute)):
            base = _base_name(target)
            extra = set(deps)
            if isinstance(target, ast.Subscript):
                extra |= self._uses(target.slice, env)
            # loads inside the target (e.g. ``a.b[c].d = v`` loads a, c)
            extra |= self._uses(target.value, env)
            if base is not None:
                old = env.get(base, set())
                env[base] = {self._newdef(base, node, "store", value, old | extra)}

    # ------------------------------------------------------------- statements
    def _block(self, stmts: Iterable[ast.stmt], env: Env) -> Env:
        for st in stmts:
            env = self._stmt(st, env)
        return env

    def _stmt(self, st: ast.stmt, env: Env) -> Env:
        self.env_at[id(st)] = _copy(env)
        if isinstance(st, ast.Assign):
            deps = self._uses(st.value, env)
            for t in st.targets:
                self._bind(t, env, st, "assign", st.value, deps)
        elif isinstance(st, ast.AnnAssign):
            if st.value is not None:
                deps = self._uses(st.value, env)
                self._bind(st.target, env, st, "assign", st.value, deps)
        elif isinstance(st, ast.AugAssign):
            deps = self._uses(st.value, env)
            if isinstance(st.target, ast.Name):
                old = env.get(st.target.id, set())
                self._reach.setdefault(id(st.target), set()).update(old)
                env[st.target.id] = {self._newdef(st.target.id, st, "aug", st.value, deps | old)}
            else:
                self._bind(st.target, env, st, "store", st.value, deps)
        elif isinstance(st, ast.Expr):
            self._uses(st.value, env)
        elif isinstance(st, ast.Return):
            uses = self._uses(st.value, env)
            for i, (node, old) in enumerate(self.returns):
                if node is st:
                    self.returns[i] = (st, old | uses)
                    break
            else:
                self.returns.append((st, uses))
        elif isinstance(st, ast.If):
            self._uses(st.test, env)
            e1 = self._block(st.body, _copy(env))
            e2 = self._block(st.orelse, _copy(env))
            t1, t2 = _terminates(st.body), _terminates(st.orelse)
            if t1 and not t2:
                env = e2
            elif t2 and not t1:
                env = e1
            else:
                env = _join(e1, e2)
        elif isinstance(st, (ast.For, ast.AsyncFor)):
            iter_deps = self._uses(st.iter, env)
            for _ in range(3):
                body_env = _copy(env)
                self._bind(st.target, body_env, st, "for", st.iter, iter_deps)
                self._loop_stack.append([])
                body_env = self._block(st.body, body_env)
                env = _join(env, body_env, *self._loop_stack.pop())
                iter_deps = iter_deps | self._uses(st.iter, env)
            env = self._block(st.orelse, env)
        elif isinstance(st, ast.While):
            for _ in range(3):
                self._uses(st.test, env)
                self._loop_stack.append([])
                body_env = self._block(st.body, _copy(env))
                env = _join(env, body_env, *self._loop_stack.pop())
            env = self._block(st.orelse, env)
        elif isinstance(st, (ast.With, ast.AsyncWith)):
            for item in st.items:
                deps = self._uses(item.context_expr, env)
                if item.optional_vars is not None:
                    self._bind(item.optional_vars, env, st, "with", item.context_expr, deps)
            env = self._block(st.body, env)
        elif isinstance(st, ast.Try):
            body_env = self._block(st.body, _copy(env))
            envs = [] if _terminates(st.body) and not st.orelse else [self._block(st.orelse, _copy(body_env))]
            start = _join(env, body_env)
            for h in st.handlers:
                henv = _copy(start)
                if h.type is not None:
                    self._uses(h.type, henv)
                if h.name:
                    henv[h.name] = {self._newdef(h.name, h, "except")}
                henv = self._block(h.body, henv)
                if not _terminates(h.body):
                    envs.append(henv)
            env = _join(*envs) if envs else start
            env = self._block(st.finalbody, env)
        elif isinstance(st, (ast.FunctionDef, ast.AsyncFunctionDef)):
            for dec in st.decorator_list:
                self._uses(dec, env)
            for d in [*st.args.defaults, *[x for x in st.args.kw_defaults if x is not None]]:
                self._uses(d, env)
            env[st.name] = {self._newdef(st.name, st, "def")}
            self._pending.append((st, None))
        elif isinstance(st, ast.ClassDef):
            env[st.name] = {self._newdef(st.name, st, "def")}
        elif isinstance(st, (ast.Import, ast.ImportFrom)):
            for alias in st.names:
                local = alias.asname or alias.name.split(".")[0]
                env[local] = {self._newdef(local, st, "import")}
        elif isinstance(st, ast.Delete):
            for t in st.targets:
                if isinstance(t, ast.Name):
                    env.pop(t.id, None)
                else:
                    self._bind(t, env, st, "store", None, set())
        elif isinstance(st, (ast.Raise, ast.Assert)):
            for child in ast.iter_child_nodes(st):
                self._uses(child, env)
        elif isinstance(st, ast.Match):
            self._uses(st.subject, env)
            envs = []
            for case in st.cases:
                cenv = _copy(env)
                for n in ast.walk(case.pattern):
                    if isinstance(n, (ast.MatchAs, ast.MatchStar)) and n.name:
                        cenv[n.name] = {self._newdef(n.name, n, "assign")}
                envs.append(self._block(case.body, cenv))
            env = _join(env, *envs)
        elif isinstance(st, (ast.Break, ast.Continue)):
            if self._loop_stack:
                self._loop_stack[-1].append(_copy(env))
        # pass / global / nonlocal: nothing
        return env


def _base_name(node: ast.AST) -> str | None:
    while isinstance(node, (ast.Subscript, ast.Attribute)):
        node = node.value
    if isinstance(node, ast.Name):
        return node.id
    return None


def _terminates(body: list[ast.stmt]) -> bool:
    """Does control never fall out of the end of this block?"""
    if not body:
        return False
    last = body[-1]
    if isinstance(last, (ast.Return, ast.Raise, ast.Continue, ast.Break)):
        return True
    if isinstance(last, ast.If):
        return bool(last.orelse) and _terminates(last.body) and _terminates(last.orelse)
    return False


# ---------------------------------------------------------------------------
# convenience


def attr_chain(node: ast.AST) -> str | None:
    """``a.b.c`` -> "a.b.c" (None if the expression is not a pure attribute path)."""
    parts = []
    while isinstance(node, ast.Attribute):
        parts.append(node.attr)
        node = node.value
    if isinstance(node, ast.Name):
        parts.append(node.id)
        return ".".join(reversed(parts))
    return None


def call_name(call: ast.Call) -> str | None:
    f = call.func
    if isinstance(f, ast.Name):
        return f.id
    if isinstance(f, ast.Attribute):
        return f.attr
    return None
