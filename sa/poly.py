"""Normal forms for E3: multivariate polynomials and rational functions with Fraction
coefficients over opaque atoms, with algebraic atoms (square roots, the imaginary unit)
reduced by ``r**2 -> radicand``.

Semantics: formal algebra at a generic point where masses / Mandelstam variables are
positive reals (``sqrt(m**2 * P) = m * sqrt(P)``).  Nothing here touches SymPy or the
repository.
"""

from __future__ import annotations

from fractions import Fraction
from math import gcd, isqrt, lcm
from typing import Iterable

Atom = object  # str | tuple
Mono = tuple  # tuple[(atom, exp), ...] sorted


def _sort_key(item):
    return repr(item[0])


def _mk(d: dict) -> Mono:
    return tuple(sorted(((a, e) for a, e in d.items() if e), key=_sort_key))


class Poly:
    __slots__ = ("t",)

    def __init__(self, terms: dict | None = None):
        self.t = {m: c for m, c in (terms or {}).items() if c != 0}

    # constructors
    @staticmethod
    def const(c) -> "Poly":
        return Poly({(): Fraction(c)})

    @staticmethod
    def atom(a, e: int = 1) -> "Poly":
        return Poly({((a, e),): Fraction(1)})

    # arithmetic
    def __add__(self, o: "Poly") -> "Poly":
        r = dict(self.t)
        for m, c in o.t.items():
            r[m] = r.get(m, 0) + c
        return Poly(r)

    def __neg__(self) -> "Poly":
        return Poly({m: -c for m, c in self.t.items()})

    def __sub__(self, o: "Poly") -> "Poly":
        return self + (-o)

    def __mul__(self, o: "Poly") -> "Poly":
        if len(self.t) > len(o.t):
            self, o = o, self
        r: dict = {}
        for m1, c1 in self.t.items():
            d1 = dict(m1)
            for m2, c2 in o.t.items():
                if not m1:
                    m = m2
                elif not m2:
                    m = m1
                else:
                    d = dict(d1)
                    for a, e in m2:
                        d[a] = d.get(a, 0) + e
                    m = _mk(d)
                r[m] = r.get(m, 0) + c1 * c2
        return Poly(r)

    def scale(self, c) -> "Poly":
        c = Fraction(c)
        return Poly({m: k * c for m, k in self.t.items()})

    def __pow__(self, n: int) -> "Poly":
        assert isinstance(n, int) and n >= 0, n
        r = Poly.const(1)
        base = self
        while n:
            if n & 1:
                r = r * base
            n >>= 1
            if n:
                base = base * base
        return r

    # inspection
    def key(self):
        return tuple(sorted(self.t.items(), key=repr))

    def is_zero(self) -> bool:
        return not self.t

    def is_const(self) -> bool:
        return all(m == () for m in self.t)

    def const_value(self) -> Fraction:
        return self.t.get((), Fraction(0))

    def atoms(self) -> set:
        return {a for m in self.t for a, _ in m}

    def degree(self, atom) -> int:
        return max((e for m in self.t for a, e in m if a == atom), default=0)

    def __eq__(self, o) -> bool:
        return isinstance(o, Poly) and self.t == o.t

    def __hash__(self) -> int:
        return hash(self.key())

    def __repr__(self) -> str:
        return show_poly(self)

    def substitute(self, atom, repl: "Poly") -> "Poly":
        """Replace every occurrence of ``atom`` by the polynomial ``repl``."""
        if atom not in self.atoms():
            return self
        out = Poly()
        cache = {0: Poly.const(1)}
        for m, c in self.t.items():
            d = dict(m)
            e = d.pop(atom, 0)
            if e < 0:
                raise ValueError(f"negative power of {atom}")
            if e not in cache:
                cache[e] = repl**e
            out = out + Poly({_mk(d): c}) * cache[e]
        return out

    def substitute_power(self, atom, power: int, repl: "Poly") -> "Poly":
        """Replace ``atom**power`` by ``repl`` (remaining exponent < power stays)."""
        if atom not in self.atoms():
            return self
        out = Poly()
        for m, c in self.t.items():
            d = dict(m)
            e = d.pop(atom, 0)
            q, r = divmod(e, power)
            rest = Poly({_mk({**d, atom: r} if r else d): c})
            out = out + rest * (repl**q)
        return out

    def content(self) -> Fraction:
        num, den = 0, 1
        for c in self.t.values():
            num = gcd(num, abs(c.numerator))
            den = lcm(den, c.denominator)
        return Fraction(num, den) if num else Fraction(1)

    def common_monomial(self) -> dict:
        common = None
        for m in self.t:
            d = dict(m)
            common = d if common is None else {a: min(e, d.get(a, 0)) for a, e in common.items() if a in d}
        return {a: e for a, e in (common or {}).items() if e > 0}

    def leading_sign(self) -> int:
        if not self.t:
            return 1
        m = min(self.t, key=repr)
        return 1 if self.t[m] > 0 else -1


def show_atom(a) -> str:
    if isinstance(a, str):
        return a
    if isinstance(a, tuple) and a and a[0] == "sqrt":
        return f"sqrt#{abs(hash(a)) % 10000}"
    if isinstance(a, tuple) and a and a[0] == "app":
        return f"{a[1]}(..#{abs(hash(a)) % 10000})"
    return str(a)[:40]


def show_poly(p: Poly, limit: int = 8) -> str:
    if not p.t:
        return "0"
    parts = []
    for m, c in list(sorted(p.t.items(), key=repr))[:limit]:
        mono = "*".join(f"{show_atom(a)}" + (f"^{e}" if e != 1 else "") for a, e in m)
        parts.append(f"{c}" + (f"*{mono}" if mono else ""))
    s = " + ".join(parts)
    if len(p.t) > limit:
        s += f" + ...({len(p.t)} terms)"
    return s


# ---------------------------------------------------------------------------


class Domain:
    """Holds the algebraic atoms (sqrt radicands, I) and optional side relations."""

    def __init__(self) -> None:
        self.radicands: dict = {}  # sqrt-atom -> Poly
        self.relations: list[tuple] = []  # (atom, power, Poly)

    def reset(self) -> None:
        self.radicands.clear()
        self.relations.clear()

    # -- relations ---------------------------------------------------------
    def set_relations(self, rels: Iterable[tuple]) -> None:
        self.relations = list(rels)

    def apply_relations(self, p: Poly) -> Poly:
        for atom, power, repl in self.relations:
            if atom in p.atoms():
                p = p.substitute_power(atom, power, repl) if power > 1 else p.substitute(atom, repl)
        return p

    # -- algebraic reduction -----------------------------------------------
    def reduce(self, p: Poly) -> Poly:
        for _ in range(12):
            before = p
            p = self.apply_relations(p)
            for a in list(p.atoms()):
                if a == "I" and p.degree(a) >= 2:
                    p = p.substitute_power(a, 2, Poly.const(-1))
                elif isinstance(a, tuple) and a and a[0] == "sqrt" and p.degree(a) >= 2:
                    p = p.substitute_power(a, 2, self.radicands[a])
            if p == before:
                break
        return p

    def sqrt_poly(self, p: Poly) -> Poly:
        p = self.reduce(p)
        if p.is_zero():
            return p
        if len(p.t) == 1:
            ((m, c),) = p.t.items()
            r = _rational_sqrt(c)
            if r is not None and all(e % 2 == 0 for _, e in m):
                return Poly({tuple((a, e // 2) for a, e in m): r})
        content = p.content()
        root = _rational_sqrt(content)
        if root is None:
            content, root = Fraction(1), Fraction(1)
        common = {a: e - e % 2 for a, e in p.common_monomial().items() if e >= 2}

        def strip(m):
            d = dict(m)
            for a, e in common.items():
                d[a] -= e
            return _mk(d)

        prim = Poly({strip(m): c / content for m, c in p.t.items()})
        if prim.is_const() and prim.const_value() == 1:
            a_poly = Poly.const(1)
        else:
            a = ("sqrt", prim.key())
            self.radicands[a] = prim
            a_poly = Poly.atom(a)
        outer = Poly({_mk({b: e // 2 for b, e in common.items()}): root})
        return outer * a_poly


def _rational_sqrt(c: Fraction):
    if c <= 0:
        return None
    n, d = isqrt(c.numerator), isqrt(c.denominator)
    return Fraction(n, d) if n * n == c.numerator and d * d == c.denominator else None


D = Domain()


class RF:
    """Rational function num/den over the atoms of the global domain ``D``."""

    __slots__ = ("n", "d")

    def __init__(self, n: Poly, d: Poly | None = None):
        self.n, self.d = n, d if d is not None else Poly.const(1)

    @staticmethod
    def const(c) -> "RF":
        return RF(Poly.const(c))

    @staticmethod
    def atom(a) -> "RF":
        return RF(Poly.atom(a))

    def __add__(self, o: "RF") -> "RF":
        o = as_rf(o)
        if self.d == o.d:
            return RF(self.n + o.n, self.d)
        return RF(self.n * o.d + o.n * self.d, self.d * o.d)

    __radd__ = __add__

    def __neg__(self) -> "RF":
        return RF(-self.n, self.d)

    def __sub__(self, o) -> "RF":
        return self + (-as_rf(o))

    def __rsub__(self, o) -> "RF":
        return as_rf(o) - self

    def __mul__(self, o) -> "RF":
        if not isinstance(o, (RF, int, float, Fraction)):
            return NotImplemented
        o = as_rf(o)
        return RF(self.n * o.n, self.d * o.d)

    __rmul__ = __mul__

    def __truediv__(self, o) -> "RF":
        o = as_rf(o)
        if o.n.is_zero():
            raise ZeroDivisionError("division by a term that normalises to zero")
        return RF(self.n * o.d, self.d * o.n)

    def __rtruediv__(self, o) -> "RF":
        return as_rf(o) / self

    def __pow__(self, e) -> "RF":
        if isinstance(e, RF):
            if e.is_const():
                e = e.const_value()
            else:
                return RF.atom(("pow", self.key(), e.key()))
        if isinstance(e, Fraction) and e.denominator == 1:
            e = int(e)
        if isinstance(e, int):
            if e >= 0:
                return RF(self.n**e, self.d**e)
            if self.n.is_zero():
                raise ZeroDivisionError("negative power of zero")
            return RF(self.d ** (-e), self.n ** (-e))
        if isinstance(e, Fraction) and e.denominator == 2:
            root = RF(D.sqrt_poly(self.n), D.sqrt_poly(self.d))
            return root ** int(e.numerator)
        return RF.atom(("pow", self.key(), RF.const(Fraction(e)).key()))

    # inspection
    def normalized(self) -> "RF":
        n, d = D.reduce(self.n), D.reduce(self.d)
        if n.is_zero():
            return RF(Poly(), Poly.const(1))
        if d.is_const():
            return RF(n.scale(1 / d.const_value()), Poly.const(1))
        c = d.content() * d.leading_sign()
        n, d = n.scale(1 / c), d.scale(1 / c)
        cn, cd = n.common_monomial(), d.common_monomial()
        common = {a: min(e, cd[a]) for a, e in cn.items() if a in cd}
        if common:
            def strip(p):
                out = {}
                for m, k in p.t.items():
                    dd = dict(m)
                    for a, e in common.items():
                        dd[a] -= e
                    out[_mk(dd)] = k
                return Poly(out)

            n, d = strip(n), strip(d)
        return RF(n, d)

    def key(self):
        r = self.normalized()
        return (r.n.key(), r.d.key())

    def is_const(self) -> bool:
        r = self.normalized()
        return r.n.is_const() and r.d.is_const()

    def const_value(self) -> Fraction:
        r = self.normalized()
        return r.n.const_value() / r.d.const_value()

    def is_zero(self) -> bool:
        return D.reduce(self.n).is_zero()

    def atoms(self) -> set:
        return self.n.atoms() | self.d.atoms()

    def substitute(self, atom, repl: "RF") -> "RF":
        """Substitute an atom by a rational function (polynomial substitution on num/den)."""
        repl = as_rf(repl)
        if atom not in self.atoms():
            return self
        if repl.d.is_const():
            r = repl.n.scale(1 / repl.d.const_value())
            return RF(self.n.substitute(atom, r), self.d.substitute(atom, r))
        # general: homogenise
        deg = max(self.n.degree(atom), self.d.degree(atom))

        def hom(p: Poly) -> Poly:
            out = Poly()
            for m, c in p.t.items():
                dd = dict(m)
                e = dd.pop(atom, 0)
                out = out + Poly({_mk(dd): c}) * (repl.n**e) * (repl.d ** (deg - e))
            return out

        return RF(hom(self.n), hom(self.d))

    def __repr__(self) -> str:
        r = self.normalized()
        return f"({show_poly(r.n)})/({show_poly(r.d)})" if not r.d.is_const() or r.d.const_value() != 1 else show_poly(r.n)


def as_rf(x) -> RF:
    if isinstance(x, RF):
        return x
    if isinstance(x, (int, Fraction)):
        return RF.const(x)
    if isinstance(x, float):
        return RF.const(Fraction(x).limit_denominator(10**9))
    raise TypeError(f"cannot convert {type(x).__name__} to RF")


def equal(a: RF, b: RF) -> bool:
    diff = as_rf(a).n * as_rf(b).d - as_rf(b).n * as_rf(a).d
    return D.reduce(diff).is_zero()


def sqrt(x: RF) -> RF:
    return as_rf(x) ** Fraction(1, 2)


def sym(name: str) -> RF:
    return RF.atom(name)


I = RF.atom("I")  # noqa: E741
