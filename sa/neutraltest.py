"""Thorough tier: the stored behaviour-preserving refactorings (/verif/neutral/<name>/patch.diff, written by
independent agents, each with an equal.py that proved identical behaviour) are applied to the current tree in
memory; the check must stay silent on each (no new violation; exit 2 only where `meta.json` records that this
check cannot decide that refactoring: {"undecided": {"Cxx": "reason"}})."""

from __future__ import annotations

import json
import os
from concurrent.futures import ProcessPoolExecutor
from pathlib import Path

from .loader import REPO, AnalysisError, Tree, read_sources

NEUTRAL_DIR = Path(__file__).resolve().parent.parent / "neutral"


def _one(args):
    pid, name, diff, sources, base_keys = args
    from .cli import run_property
    from .selftest import apply_unified_diff

    patched = apply_unified_diff(sources, diff)
    if patched is None:
        return name, "not-applicable", [], ""
    try:
        tree = Tree(patched, root=f"<neutral {name}>")
    except (SyntaxError, AnalysisError) as exc:
        return name, "unloadable", [], str(exc)
    code, vctx = run_property(pid, "quick", 0, tree, quiet=True, write=False)
    new = sorted({i.rule for i in vctx.instances if i.verdict == "violation" and (i.rule, i.key) not in base_keys})
    return name, ("violation" if new else "analysis-error" if code == 2 else "silent"), new, "; ".join(vctx.soft_errors)[:160]


def run_neutral_in_memory(ctx) -> None:
    from .selftest import base_violation_keys

    if not NEUTRAL_DIR.is_dir():
        return
    sources = read_sources(REPO)
    base_keys, base_code = base_violation_keys(ctx.pid, sources)
    jobs, metas = [], {}
    for d in sorted(NEUTRAL_DIR.iterdir()):
        patch = d / "patch.diff"
        if not patch.exists():
            continue
        metas[d.name] = json.loads((d / "meta.json").read_text()) if (d / "meta.json").exists() else {}
        jobs.append((ctx.pid, d.name, patch.read_text(), sources, base_keys))
    with ProcessPoolExecutor(max_workers=min(16, os.cpu_count() or 4)) as pool:
        results = list(pool.map(_one, jobs))
    bad, n = [], 0
    for name, got, new, err in results:
        meta = metas[name]
        where = f"neutral/{name}/patch.diff"
        if got == "not-applicable":
            ctx.info("M-NEUTRAL", where, f"refactoring `{name}` no longer applies to the current tree (skipped)")
            continue
        n += 1
        undecided = meta.get("undecided", {}).get(ctx.pid)
        if got == "unloadable":
            bad.append(f"{name}: patched tree cannot be loaded ({err})")
        elif got == "violation":
            bad.append(f"{name}: FALSE ALARM {new}")
        elif got == "analysis-error" and base_code != 2:
            if undecided:
                ctx.info("M-NEUTRAL", where, f"refactoring `{name}`: cannot be decided (exit 2), as recorded: {undecided}")
            else:
                bad.append(f"{name}: exit 2 ({err})")
        else:
            ctx.ok("M-NEUTRAL", where, f"behaviour-preserving refactoring `{name}` ({meta.get('title', '')[:70]}): silent")
    ctx.stats["neutral_refactorings_replayed"] = n
    if bad:
        raise AnalysisError("checker self-test failed on recorded behaviour-preserving refactorings: " + "; ".join(bad))
