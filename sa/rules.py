"""Reusable rule shapes (DESIGN.md section 2) shared by several properties."""

from __future__ import annotations

import ast
import re
from typing import Iterable, Iterator

from .dataflow import RD, attr_chain
from .exprmodel import ExprClass
from .loader import AnalysisError, FuncInfo, Tree, unparse, walk_function

# --------------------------------------------------------------------------- R-SHALLOW

DEEP_SOURCES = {
    "dataclasses.astuple": "recurses into every field value that is itself a dataclass instance "
    "(every @unevaluated class is a dataclass), turning nested expressions into plain tuples",
    "dataclasses.asdict": "recurses into nested dataclass instances",
    "copy.deepcopy": "copies nested expressions instead of handing them out",
}
FIELDS_FUNCS = {"dataclasses.fields"}


def reach_functions(tree: Tree, start: FuncInfo, depth: int = 3) -> list[tuple[FuncInfo, tuple[str, ...]]]:
    """Repo functions reachable from ``start`` through resolved calls (bounded depth)."""
    out: list[tuple[FuncInfo, tuple[str, ...]]] = [(start, (start.qual,))]
    seen = {start.qual}
    frontier = [(start, (start.qual,))]
    for _ in range(depth):
        nxt = []
        for fn, path in frontier:
            for _call, callee in tree.calls_in(fn):
                if callee and callee in tree.funcs and callee not in seen:
                    seen.add(callee)
                    item = (tree.funcs[callee], (*path, callee))
                    out.append(item)
                    nxt.append(item)
        frontier = nxt
    return out


def external_calls(tree: Tree, fn: FuncInfo) -> Iterator[tuple[ast.Call, str]]:
    for call, callee in tree.calls_in(fn):
        if callee and "::" not in callee:
            yield call, callee


def argument_sources(tree: Tree, fn: FuncInfo, self_name: str = "self") -> list[dict]:
    """How does ``fn`` (a hook taking the instance as first parameter) read the
    instance's arguments?  Returns a list of recognised sources:

    * kind "args"     - ``<inst>.args``
    * kind "fields"   - comprehension/loop over ``dataclasses.fields(<inst>)`` producing
      ``getattr(<inst>, f.name)``; ``filtered`` tells whether an ``if`` restricts it
    * kind "deep"     - a call of a DEEP_SOURCES callable on the instance
    """
    found: list[dict] = []
    inst = fn.params[0] if fn.params else self_name
    for node in walk_function(fn.node):
        if isinstance(node, ast.Attribute) and node.attr in {"args", "_args"}:
            if isinstance(node.value, ast.Name) and node.value.id == inst:
                found.append({"kind": "args", "node": node})
        if isinstance(node, ast.Call):
            callee = tree.callee(node, fn)
            if callee in DEEP_SOURCES:
                found.append({"kind": "deep", "node": node, "callee": callee})
            if callee in {"operator.attrgetter", "operator.itemgetter"} and (any(isinstance(a, ast.Starred) for a in node.args) or len(node.args) == 1):
                # attrgetter(*names)(obj): a tuple for >= 2 names, the bare value for one name
                found.append({"kind": "getter-arity", "node": node, "callee": callee})
        if isinstance(node, (ast.GeneratorExp, ast.ListComp, ast.SetComp)):
            for gen in node.generators:
                if isinstance(gen.iter, ast.Call) and tree.callee(gen.iter, fn) in FIELDS_FUNCS | {
                    "ampform.sympy._decorator::get_sympy_fields"
                }:
                    elt = node.elt
                    getattrs = [
                        c
                        for c in ast.walk(elt)
                        if isinstance(c, ast.Call) and isinstance(c.func, ast.Name) and c.func.id == "getattr"
                    ]
                    if getattrs:
                        filtered = bool(gen.ifs) or tree.callee(gen.iter, fn) not in FIELDS_FUNCS
                        found.append({
                            "kind": "fields",
                            "node": node,
                            "filtered": filtered,
                            "filter": [unparse(i) for i in gen.ifs],
                        })
    return found


# --------------------------------------------------------------------------- R-ARITY


def self_args_unpackings(fn: FuncInfo) -> Iterator[tuple[ast.Assign, list[ast.AST], bool]]:
    """``a, b, c = self.args`` and ``a, b = map(f, self.args)`` inside ``fn``.

    Yields (statement, target elements, through_map)."""
    for node in walk_function(fn.node):
        if not isinstance(node, ast.Assign) or len(node.targets) != 1:
            continue
        tgt = node.targets[0]
        if not isinstance(tgt, (ast.Tuple, ast.List)):
            continue
        val = node.value
        through_map = False
        if isinstance(val, ast.Call) and isinstance(val.func, ast.Name) and val.func.id in {"map", "tuple", "list"}:
            if val.func.id == "map" and len(val.args) == 2:
                val, through_map = val.args[1], True
            elif val.func.id in {"tuple", "list"} and len(val.args) == 1:
                val = val.args[0]
        if isinstance(val, ast.Attribute) and val.attr == "args" and isinstance(val.value, ast.Name) and val.value.id == "self":
            yield node, list(tgt.elts), through_map


def check_arity(cls: ExprClass, elts: list[ast.AST]) -> str | None:
    """None if the unpacking is consistent with the class's SymPy fields."""
    fields = [f.name for f in cls.sympy_fields]
    star = [i for i, e in enumerate(elts) if isinstance(e, ast.Starred)]
    if len(star) > 1:
        return "more than one starred target"
    if not star and len(elts) != len(fields):
        return f"{len(elts)} targets for {len(fields)} SymPy fields {fields}"
    if star and len(elts) - 1 > len(fields):
        return f"at least {len(elts) - 1} targets for {len(fields)} SymPy fields {fields}"
    # a target that carries the name of a field must sit at that field's position
    n = len(elts)
    for i, e in enumerate(elts):
        if isinstance(e, ast.Starred) or not isinstance(e, ast.Name) or e.id == "_":
            continue
        if e.id in fields:
            pos = i if not star or i < star[0] else len(fields) - (n - i)
            if fields.index(e.id) != pos:
                return f"target '{e.id}' at position {pos} but field '{e.id}' is at position {fields.index(e.id)} of {fields}"
    return None


# --------------------------------------------------------------------------- R-PRINT


def printer_methods(tree: Tree, names=("_numpycode", "_pythoncode")) -> list[FuncInfo]:
    out = []
    for q, fn in tree.funcs.items():
        if q.startswith("ampform") and fn.cls is not None and fn.outer is None and fn.name in names:
            out.append(fn)
    return out


def _is_print_call(node: ast.AST, printer: str) -> bool:
    """``printer._print(...)`` / ``printer.doprint(...)`` / ``printer._print_X(...)``."""
    if isinstance(node, ast.Call) and isinstance(node.func, ast.Attribute):
        f = node.func
        if isinstance(f.value, ast.Name) and f.value.id == printer and (f.attr.startswith("_print") or f.attr == "doprint" or f.attr == "parenthesize"):
            return True
    return False


def _is_print_map(node: ast.AST, printer: str) -> bool:
    if isinstance(node, ast.Call) and isinstance(node.func, ast.Name) and node.func.id in {"map"} and node.args:
        f = node.args[0]
        return isinstance(f, ast.Attribute) and isinstance(f.value, ast.Name) and f.value.id == printer and f.attr.startswith("_print")
    return False


class PrintTaint:
    """Classifies every value interpolated into generated code inside a printer method.

    A value is *printed* when it derives only from printer calls, string/number literals,
    other printed values, string methods / joins / f-strings of printed values, or
    class-level literal constants reached as ``self.<NAME>``.  Anything that derives from
    ``self.args`` / ``self.<field>`` without passing the printer is *raw*.
    """

    def __init__(self, tree: Tree, fn: FuncInfo, class_literals: set[str], safe_methods: set[str]):
        self.tree = tree
        self.fn = fn
        self.printer = fn.params[1] if len(fn.params) > 1 else "printer"
        self.rd = RD(fn.node)
        self.class_literals = class_literals
        self.safe_methods = safe_methods
        self._memo: dict[int, tuple[bool, str]] = {}

    def classify(self, node: ast.AST, depth: int = 0) -> tuple[bool, str]:
        """(is_printed, reason-if-not)."""
        if depth > 40:
            return False, "too deep"
        p = self.printer
        if isinstance(node, ast.Constant):
            return True, ""
        if isinstance(node, ast.JoinedStr):
            for v in node.values:
                if isinstance(v, ast.FormattedValue):
                    ok, why = self.classify(v.value, depth + 1)
                    if not ok:
                        return ok, why
            return True, ""
        if _is_print_call(node, p) or _is_print_map(node, p):
            return True, ""
        if isinstance(node, ast.Call):
            f = node.func
            # "sep".join(x), x.format(...), str methods on printed strings
            if isinstance(f, ast.Attribute) and f.attr in {"join", "format", "strip", "replace", "lower", "upper"}:
                parts = [f.value, *node.args, *[k.value for k in node.keywords]]
                for part in parts:
                    ok, why = self.classify(part, depth + 1)
                    if not ok:
                        return ok, why
                return True, ""
            if isinstance(f, ast.Name) and f.id in {"len", "str", "int", "repr", "list", "tuple", "sorted", "range", "enumerate", "zip"}:
                if f.id in {"len", "int", "range"}:
                    return True, ""
                for part in node.args:
                    ok, why = self.classify(part, depth + 1)
                    if not ok:
                        return ok, why
                return True, ""
            # helper methods of the same class that return strings built from integers only
            if isinstance(f, ast.Attribute) and isinstance(f.value, ast.Name) and f.value.id in {"self", "cls"} and f.attr in self.safe_methods:
                return True, ""
            # helper method of the same class that receives the printer: judge its returns
            if isinstance(f, ast.Attribute) and isinstance(f.value, ast.Name) and f.value.id in {"self", "cls"} and self.fn.cls is not None:
                helper = self.tree.lookup_method(self.fn.cls, f.attr)
                passes_printer = any(isinstance(a, ast.Name) and a.id == p for a in [*node.args, *[k.value for k in node.keywords]])
                if helper is not None and passes_printer and depth < 6 and helper is not self.fn:
                    idx = next(i for i, a in enumerate(node.args) if isinstance(a, ast.Name) and a.id == p) if any(isinstance(a, ast.Name) and a.id == p for a in node.args) else None
                    sub = PrintTaint(self.tree, helper, self.class_literals, self.safe_methods)
                    if idx is not None and len(helper.params) > idx + 1:
                        sub.printer = helper.params[idx + 1]
                    else:
                        kw = next((k.arg for k in node.keywords if isinstance(k.value, ast.Name) and k.value.id == p), None)
                        if kw:
                            sub.printer = kw
                    rets = [n for n in walk_function(helper.node, nested=False) if isinstance(n, ast.Return) and n.value is not None]
                    if rets:
                        for r in rets:
                            ok, why = sub.classify(r.value, depth + 1)
                            if not ok:
                                return False, f"helper {helper.qual}: {why}"
                        return True, ""
            return False, f"value of call {unparse(node)[:60]} does not pass the printer"
        if isinstance(node, ast.Attribute):
            chain = attr_chain(node)
            if chain and chain.startswith("self.") and chain.count(".") == 1 and node.attr in self.class_literals:
                return True, ""
            return False, f"'{unparse(node)}' is interpolated without printer._print"
        if isinstance(node, ast.Name):
            defs = self.rd.reaching(node) if isinstance(node.ctx, ast.Load) else set()
            if not defs:
                return False, f"no definition reaches '{node.id}'"
            for d in defs:
                ok, why = self._classify_def(d, depth + 1)
                if not ok:
                    return ok, why
            return True, ""
        if isinstance(node, (ast.BinOp,)):
            for part in (node.left, node.right):
                ok, why = self.classify(part, depth + 1)
                if not ok:
                    return ok, why
            return True, ""
        if isinstance(node, ast.IfExp):
            for part in (node.body, node.orelse):
                ok, why = self.classify(part, depth + 1)
                if not ok:
                    return ok, why
            return True, ""
        if isinstance(node, (ast.ListComp, ast.GeneratorExp, ast.SetComp)):
            return self.classify(node.elt, depth + 1)
        if isinstance(node, (ast.Tuple, ast.List)):
            for e in node.elts:
                ok, why = self.classify(e, depth + 1)
                if not ok:
                    return ok, why
            return True, ""
        if isinstance(node, ast.Subscript):
            return self.classify(node.value, depth + 1)
        if isinstance(node, ast.Starred):
            return self.classify(node.value, depth + 1)
        return False, f"unrecognised construct {type(node).__name__}: {unparse(node)[:60]}"

    def _classify_def(self, d, depth: int) -> tuple[bool, str]:
        key = id(d)
        if key in self._memo:
            return self._memo[key]
        self._memo[key] = (True, "")  # cycles (loops) are optimistic on the back edge
        if d.kind == "param":
            res = (False, f"parameter '{d.name}' interpolated raw")
        elif d.kind in {"assign", "comp", "for", "aug", "store", "with"} and d.value is not None:
            res = self.classify(d.value, depth)
            if d.kind in {"aug", "store"} and res[0]:
                for dep in d.deps:
                    if dep.name == d.name and dep is not d:
                        res = self._classify_def(dep, depth + 1)
                        if not res[0]:
                            break
        else:
            res = (False, f"definition of '{d.name}' ({d.kind}) is not a printed string")
        self._memo[key] = res
        return res

    def interpolations(self) -> Iterator[tuple[ast.AST, ast.AST]]:
        """(container, interpolated expression) for every f-string placeholder,
        %-operand and .format() argument that reaches a ``return``."""
        for node in walk_function(self.fn.node):
            if isinstance(node, ast.JoinedStr):
                for v in node.values:
                    if isinstance(v, ast.FormattedValue):
                        yield node, v.value
            elif isinstance(node, ast.BinOp) and isinstance(node.op, ast.Mod) and isinstance(node.left, (ast.Constant, ast.JoinedStr)):
                if isinstance(node.left, ast.Constant) and not isinstance(node.left.value, str):
                    continue
                operands = node.right.elts if isinstance(node.right, ast.Tuple) else [node.right]
                for o in operands:
                    yield node, o
            elif isinstance(node, ast.Call) and isinstance(node.func, ast.Attribute) and node.func.attr == "format":
                if isinstance(node.func.value, ast.Constant) and isinstance(node.func.value.value, str):
                    for o in [*node.args, *[k.value for k in node.keywords]]:
                        yield node, o


def class_literal_attrs(tree: Tree, fn: FuncInfo) -> set[str]:
    """Names of class-level attributes (whole MRO, repo part) whose value is a literal."""
    out: set[str] = set()
    if fn.cls is None:
        return out
    for c in tree.mro(fn.cls):
        for st in c.node.body:
            if isinstance(st, ast.Assign) and isinstance(st.value, ast.Constant):
                for t in st.targets:
                    if isinstance(t, ast.Name):
                        out.add(t.id)
            if isinstance(st, ast.AnnAssign) and isinstance(st.value, ast.Constant) and isinstance(st.target, ast.Name):
                out.add(st.target.id)
    return out


def string_only_methods(tree: Tree, fn: FuncInfo) -> set[str]:
    """Methods of the class (static helpers) whose parameters are all annotated int/str:
    their results cannot contain an unprinted SymPy object."""
    out: set[str] = set()
    if fn.cls is None:
        return out
    for c in tree.mro(fn.cls):
        for name, m in c.methods.items():
            args = [a for a in m.node.args.args if a.arg not in {"self", "cls"}]
            if args and all(a.annotation is not None and unparse(a.annotation) in {"int", "str"} for a in args):
                out.add(name)
    return out


def require(cond: bool, what: str) -> None:
    if not cond:
        raise AnalysisError(what)


# --------------------------------------------------------------------------- R-SYMPAIR

SYMBOL_CTORS = {"sympy.Symbol": "Symbol", "sympy.symbols": "symbols", "sympy.IndexedBase": "IndexedBase", "sympy.Dummy": "Dummy"}


def _skeleton(node: ast.AST) -> str | None:
    if isinstance(node, ast.Constant) and isinstance(node.value, str):
        return node.value
    if isinstance(node, ast.JoinedStr):
        return "".join(str(v.value) if isinstance(v, ast.Constant) else "{}" for v in node.values)
    return None


def symbol_sites(tree: Tree, module_prefixes: Iterable[str]) -> list[dict]:
    """Every symbol construction (``sp.Symbol/symbols/IndexedBase/Dummy``) in the given
    modules: function, kind, name skeleton (f-string placeholders -> ``{}``), assumptions."""
    from .terms import expand_symbols

    out = []
    prefixes = tuple(module_prefixes)
    for q, fn in sorted(tree.funcs.items()):
        if not q.startswith(prefixes):
            continue
        for call, callee in tree.calls_in(fn, nested=False):
            if callee not in SYMBOL_CTORS or not call.args:
                continue
            name_node = call.args[0]
            skels = [_skeleton(name_node)]
            if skels[0] is None and isinstance(name_node, ast.Name):
                # name built in a local variable first (possibly on several branches)
                rd = RD(fn.node)
                defs = rd.reaching(name_node)
                found = [_skeleton(d.value) for d in defs if d.value is not None]
                if found and all(f is not None for f in found) and len(found) == len(defs):
                    skels = sorted(set(found))
            assumptions = {k.arg: unparse(k.value) for k in call.keywords if k.arg and k.arg not in {"shape", "cls", "seq"}}
            star = any(k.arg is None for k in call.keywords)
            kind = SYMBOL_CTORS[callee]
            names = []
            for skel in skels:
                if kind == "symbols" and skel is not None and "{}" not in skel:
                    names.extend(expand_symbols(skel))
                else:
                    names.append(skel)
            for nm in names:
                out.append({
                    "fn": q,
                    "node": call,
                    "kind": "Symbol" if kind == "symbols" else kind,
                    "skeleton": nm,
                    "assumptions": assumptions,
                    "star_kwargs": star,
                })
    return out


# --------------------------------------------------------------------------- R-PREC


def _template(js: ast.JoinedStr) -> tuple[str, list[ast.AST]]:
    """Template text with ``\\x00<i>\\x01`` marks for the placeholders."""
    parts, holes = [], []
    for v in js.values:
        if isinstance(v, ast.Constant):
            parts.append(str(v.value))
        else:
            parts.append(f"\x00{len(holes)}\x01")
            holes.append(v.value)
    return "".join(parts), holes


def _top_kind(node: ast.AST) -> str:
    """'atomic' (call / subscript / name of such), 'product' (* / ** at the top), else 'arbitrary'."""
    if isinstance(node, ast.Call):
        # SymPy's elementary functions evaluate automatically: sin(asin(a + b)) IS a + b, cos(acos(x)) is x,
        # sqrt(x**2) may be x - what is printed for such a call can have any top-level operator
        f = node.func
        if isinstance(f, ast.Attribute) and isinstance(f.value, ast.Name) and f.value.id in {"sp", "sympy"} and f.attr[:1].islower():
            return "arbitrary"
        return "atomic"
    if isinstance(node, (ast.Subscript, ast.Constant)):
        return "atomic"
    if isinstance(node, ast.BinOp) and isinstance(node.op, (ast.Mult, ast.Div, ast.Pow)):
        return "product"
    if isinstance(node, ast.UnaryOp):
        return "arbitrary"
    return "arbitrary"


def field_kinds(tree: Tree, cls_qual: str) -> dict[str, str] | None:
    """For a *private* expression class: the syntactic kind of what its constructor sites
    pass for each field ('atomic' / 'product' / 'arbitrary').  None for public classes
    (users may pass anything)."""
    from .exprmodel import expression_classes
    from .inline import Inliner

    classes = expression_classes(tree)
    if cls_qual not in classes or not classes[cls_qual].name.startswith("_"):
        return None
    cls = classes[cls_qual]
    names = [f.name for f in cls.fields]
    kinds: dict[str, str] = {}
    n_sites = 0
    order = {"atomic": 0, "product": 1, "arbitrary": 2}
    for q, fn in tree.funcs.items():
        if not q.startswith("ampform"):
            continue
        for call, callee in tree.calls_in(fn, nested=False):
            if callee != cls_qual:
                continue
            n_sites += 1
            inl = Inliner(fn.node)
            given = dict(zip(names, call.args))
            for k in call.keywords:
                if k.arg:
                    given[k.arg] = k.value
            for name, expr in given.items():
                kind = _top_kind(inl.expr(expr))
                if name not in kinds or order[kind] > order[kinds[name]]:
                    kinds[name] = kind
    if n_sites == 0:
        return None
    return kinds


def precedence_hazards(tree: Tree, fn: FuncInfo) -> list[tuple[ast.AST, str]]:
    """Placeholders of generated-code templates that sit next to an operator of higher
    precedence than what the printed sub-expression may have at its top level."""
    out: list[tuple[ast.AST, str]] = []
    printer = fn.params[1] if len(fn.params) > 1 else "printer"
    rd = RD(fn.node)
    kinds = field_kinds(tree, fn.cls.qual) if fn.cls is not None else None
    fields_by_local: dict[str, str] = {}
    if fn.cls is not None:
        from .exprmodel import expression_classes

        ec = expression_classes(tree).get(fn.cls.qual)
        if ec is not None:
            for st, elts, _ in self_args_unpackings(fn):
                for e, f in zip(elts, [x.name for x in ec.sympy_fields]):
                    if isinstance(e, ast.Name):
                        fields_by_local[e.id] = f

    def value_kind(node: ast.AST, depth: int = 0) -> str:
        """Kind of the *printed text* this expression denotes."""
        if depth > 8:
            return "arbitrary"
        if isinstance(node, ast.Call):
            f = node.func
            if isinstance(f, ast.Attribute) and isinstance(f.value, ast.Name) and f.value.id == printer:
                if f.attr == "parenthesize":
                    return "atomic"
                if f.attr.startswith("_print") and node.args:
                    arg = node.args[0]
                    # self.<field> of a private class: what do the constructor sites pass?
                    if isinstance(arg, ast.Attribute) and isinstance(arg.value, ast.Name) and arg.value.id == "self" and kinds is not None:
                        return kinds.get(arg.attr, "arbitrary")
                    return "arbitrary"
            return "arbitrary"
        if isinstance(node, ast.JoinedStr):
            text, _ = _template(node)
            if re.fullmatch(r"[A-Za-z_][\w.]*\(.*\)", text.strip(), re.S):
                return "atomic"
            return "arbitrary"
        if isinstance(node, ast.Constant):
            return "atomic"
        if isinstance(node, ast.Name):
            if node.id in fields_by_local and kinds is not None:
                # a, b = map(printer._print, self.args)
                defs = rd.reaching(node)
                if defs and all(d.value is not None and "map(" in unparse(d.value) for d in defs):
                    return kinds.get(fields_by_local[node.id], "arbitrary")
            worst = "atomic"
            order = {"atomic": 0, "product": 1, "arbitrary": 2}
            defs = rd.reaching(node)
            if not defs:
                return "arbitrary"
            for d in defs:
                if d.value is None or d.index is not None and "map(" not in unparse(d.value):
                    return "arbitrary"
                k = "arbitrary" if "map(" in unparse(d.value) else value_kind(d.value, depth + 1)
                if order[k] > order[worst]:
                    worst = k
            return worst
        return "arbitrary"

    for node in walk_function(fn.node, nested=False):
        if not isinstance(node, ast.JoinedStr):
            continue
        text, holes = _template(node)
        # only templates that are generated code: heuristically those that reach a return
        for i, hole in enumerate(holes):
            mark = f"\x00{i}\x01"
            pos = text.index(mark)
            before = text[:pos].rstrip()
            after = text[pos + len(mark):].lstrip()
            hazards = []
            if before.endswith("-") or (before.endswith("+") and False):
                # unary or binary minus: `- a + b` changes meaning
                hazards.append(("minus before", "product"))
            if before.endswith(("*", "/", "%", "@")):
                hazards.append((f"`{before[-2:].strip()}` before", "atomic"))
            if after.startswith(("**",)):
                hazards.append(("`**` after", "atomic"))
            elif after.startswith(("*", "/", "%", "@")):
                hazards.append((f"`{after[0]}` after", "atomic"))
            elif after.startswith(("[", ".")) and not after.startswith("..."):
                hazards.append((f"`{after[0]}` after", "atomic"))
            if not hazards:
                continue
            kind = value_kind(hole)
            order = {"atomic": 0, "product": 1, "arbitrary": 2}
            for what, need in hazards:
                if order[kind] > order[need]:
                    out.append((hole, f"placeholder {{{unparse(hole)}}} has `{what}` in the template but the printed sub-expression may be {'a sum' if kind == 'arbitrary' else 'a product'} (not parenthesised)"))
    return out


# --------------------------------------------------------------------------- R-REBUILD
# SymPy operations that reconstruct every visited node as ``node.func(*node.args)``.  An
# @unevaluated class keeps arguments declared with argument(sympify=False) outside ``args``
# (the decorator only carries them through its own _xreplace / _eval_subs / __getnewargs__
# hooks), so such a reconstruction silently falls back to the field's default.
REBUILDERS = {
    "together", "cancel", "factor", "factor_terms", "simplify", "expand", "expand_mul", "expand_complex",
    "expand_func", "expand_trig", "expand_log", "expand_power_base", "expand_power_exp", "apart", "collect",
    "ratsimp", "radsimp", "powsimp", "powdenest", "trigsimp", "nsimplify", "signsimp", "combsimp", "gammasimp",
    "logcombine", "cse", "rewrite", "sqrtdenest", "separatevars", "bottom_up", "use", "nfloat",
}  # fmt: skip
REBUILD_METHODS = REBUILDERS - {"cse", "bottom_up", "use"}


def carrier_classes(tree: Tree, field_names: tuple[str, ...]) -> dict[str, list[str]]:
    """Expression classes with a non-sympified argument among ``field_names``."""
    from .exprmodel import expression_classes

    out = {}
    for q, ec in expression_classes(tree).items():
        names = [f.name for f in ec.non_sympy_fields if f.name in field_names]
        if names:
            out[q] = names
    return out


def rebuild_sites(tree: Tree, module_prefixes: tuple[str, ...], carriers: dict[str, list[str]]) -> tuple[list[dict], dict]:
    """Calls of a REBUILDER whose operand may contain an instance of a carrier class.

    operand "may contain a carrier": its reaching-definition closure contains a call to a repo
    function from which a carrier constructor is reachable in the call graph, or a parameter
    that receives such a value at some call site of the enclosing function (fixpoint)."""
    from .dataflow import RD

    graph = tree.call_graph()
    producers = {q for q in tree.funcs if any(c in tree.reachable(q, graph) for c in carriers)}
    producers |= set(carriers)
    fns = [f for q, f in tree.funcs.items() if q.startswith(module_prefixes) and f.outer is None]
    rds = {f.qual: RD(f.node) for f in fns}

    def find_rd(fn):
        top = fn
        while top.outer is not None:
            top = top.outer
        return rds.get(top.qual)

    tainted_params: set[tuple[str, str]] = set()

    def expr_tainted(fn, rd, expr) -> str | None:
        for n in ast.walk(expr):
            if isinstance(n, ast.Call):
                callee = tree.callee(n, fn)
                if callee in producers:
                    return f"{callee.split('::')[-1]}(...)"
        for d in rd.closure(rd.uses(expr)):
            if d.kind == "param" and (fn.qual, d.name) in tainted_params:
                return f"parameter `{d.name}`"
            v = d.value if isinstance(d.value, ast.AST) else None
            if v is not None:
                for n in ast.walk(v):
                    if isinstance(n, ast.Call) and tree.callee(n, fn) in producers:
                        return f"{tree.callee(n, fn).split('::')[-1]}(...)"
        return None

    all_fns = [f for q, f in tree.funcs.items() if q.startswith(module_prefixes)]
    for _ in range(4):  # propagate taint into parameters through call sites
        grew = False
        for fn in all_fns:
            rd = find_rd(fn)
            if rd is None:
                continue
            for call, callee in tree.calls_in(fn, nested=False):
                tgt = tree.funcs.get(callee) if callee else None
                if tgt is None:
                    continue
                params = tgt.params[1:] if tgt.cls is not None and tgt.params[:1] in (["self"], ["cls"]) else tgt.params
                bound = list(zip(params, call.args)) + [(k.arg, k.value) for k in call.keywords if k.arg]
                for pname, arg in bound:
                    if (tgt.qual, pname) not in tainted_params and expr_tainted(fn, rd, arg):
                        tainted_params.add((tgt.qual, pname))
                        grew = True
        if not grew:
            break

    sites = []
    n_calls = 0
    for fn in all_fns:
        rd = find_rd(fn)
        if rd is None:
            continue
        for node in walk_function(fn.node, nested=False):
            if not isinstance(node, ast.Call):
                continue
            name, operand = None, None
            f = node.func
            if isinstance(f, ast.Attribute) and isinstance(f.value, ast.Name) and f.value.id in {"sp", "sympy"} and f.attr in REBUILDERS and node.args:
                name, operand = f.attr, node.args[0]
            elif isinstance(f, ast.Name) and f.id in REBUILDERS and (tree.callee(node, fn) or "").startswith("sympy") and node.args:
                name, operand = f.id, node.args[0]
            elif isinstance(f, ast.Attribute) and f.attr in REBUILD_METHODS and not (isinstance(f.value, ast.Name) and f.value.id in {"sp", "sympy"}):
                name, operand = f.attr, f.value
            elif isinstance(f, ast.Attribute) and f.attr in {"applyfunc", "replace"} and node.args:
                a0 = node.args[0]
                inner = a0.attr if isinstance(a0, ast.Attribute) else a0.id if isinstance(a0, ast.Name) else None
                if f.attr == "applyfunc" and inner in REBUILDERS:
                    name, operand = f"applyfunc({inner})", f.value
            if name is None:
                continue
            n_calls += 1
            why = expr_tainted(fn, rd, operand)
            sites.append({"fn": fn, "node": node, "name": name, "operand": operand, "carrier_via": why})
    return sites, {"producers": len(producers), "tainted_params": sorted(f"{a}({b})" for a, b in tainted_params), "rebuilder_calls": n_calls}


# --------------------------------------------------------------------------- R-SAMETOPOLOGY
def topology_mismatches(tree: Tree, module_prefixes: tuple[str, ...]) -> tuple[list[dict], int]:
    """Calls `f(T, ..., x, ...)` of a repo function whose first parameter is named `topology`, where
    an argument `x` was computed (reaching-definition closure) from ANOTHER topology value than T.

    State ids, node ids and id sets only mean something relative to the topology they were read
    from; combining ids of one topology with another topology object silently selects the wrong
    (or no) states as soon as a reaction has more than one topology."""
    out: list[dict] = []
    n_calls = 0
    # functions whose result depends on the final-state ids only, which all topologies of one
    # reaction share (one line of reason per exemption)
    topology_independent = {
        "ampform.kinematics.lorentz::create_four_momentum_symbols",  # {i: p_i for i in topology.outgoing_edge_ids}
    }

    def first_param_is_topology(callee: str | None) -> bool:
        f = tree.funcs.get(callee) if callee else None
        if f is None:
            return False
        params = f.params[1:] if f.cls is not None and f.params[:1] in (["self"], ["cls"]) else f.params
        return bool(params) and params[0] == "topology"

    for q, fn in sorted(tree.funcs.items()):
        if not q.startswith(module_prefixes) or fn.outer is not None:
            continue
        rd = RD(fn.node)

        def ident(expr: ast.AST, scope_rd=rd):
            """Identity of a topology-valued expression: text + reaching definitions of its names."""
            names = [n for n in ast.walk(expr) if isinstance(n, ast.Name) and isinstance(n.ctx, ast.Load)]
            defs = frozenset(id(d.node) for n in names for d in scope_rd.reaching(n))
            return (re.sub(r"\s+", "", unparse(expr)), defs)

        for node in walk_function(fn.node, nested=True):
            if not (isinstance(node, ast.Call) and node.args):
                continue
            scope = tree.func_of(node) or fn
            if not first_param_is_topology(tree.callee(node, scope)):
                continue
            n_calls += 1
            t_id = ident(node.args[0])
            for arg in [*node.args[1:], *[k.value for k in node.keywords]]:
                seen_nodes = set()
                exprs = [arg] + [d.value for d in rd.closure(rd.uses(arg)) if isinstance(d.value, ast.AST)]
                for e in exprs:
                    for sub in ast.walk(e):
                        if id(sub) in seen_nodes:
                            continue
                        seen_nodes.add(id(sub))
                        other = None
                        if (isinstance(sub, ast.Call) and sub.args and sub is not node and first_param_is_topology(tree.callee(sub, scope))
                                and tree.callee(sub, scope) not in topology_independent):
                            other = sub.args[0]
                        if other is None:
                            continue
                        o_id = ident(other)
                        if o_id != t_id:
                            out.append({"fn": fn, "call": node, "arg": arg, "topology": node.args[0], "other": other, "via": sub})
    return out, n_calls


# --------------------------------------------------------------------------- R-LITERALID / R-MEMO
def literal_id_comparisons(tree: Tree, modules: tuple[str, ...]) -> tuple[list[dict], int]:
    """Comparisons of a state / edge / node id with an integer literal.  Ids are labels: qrules
    numbers the initial state -1 by default, but the library itself relabels topologies (0 for the
    initial state in the DPD alignment) and users may permute them; the initial / final edges are
    `topology.incoming_edge_ids` / `outgoing_edge_ids`."""
    out = []
    n = 0
    idish = re.compile(r"(state|edge|node)_ids?\b|\b(state|edge|node)_id\b|_edge_ids\b|get_parent_id|get_sibling_state_id")
    for q, fn in sorted(tree.funcs.items()):
        if not q.startswith(modules) or fn.outer is not None:
            continue
        rd = RD(fn.node)
        for node in walk_function(fn.node, nested=True):
            if not (isinstance(node, ast.Compare) and len(node.ops) == 1 and isinstance(node.ops[0], (ast.Eq, ast.NotEq, ast.Is, ast.IsNot, ast.Lt, ast.Gt, ast.LtE, ast.GtE))):
                continue
            sides = [node.left, node.comparators[0]]
            lit = [s for s in sides if (isinstance(s, ast.Constant) and isinstance(s.value, int) and not isinstance(s.value, bool))
                   or (isinstance(s, ast.UnaryOp) and isinstance(s.op, ast.USub) and isinstance(s.operand, ast.Constant) and isinstance(s.operand.value, int))]
            if len(lit) != 1:
                continue
            other = sides[0] if sides[1] is lit[0] else sides[1]
            if isinstance(other, ast.Call) and unparse(other.func) == "len":
                continue
            n += 1
            texts = [unparse(other)] + [unparse(d.value) for d in rd.closure(rd.uses(other)) if isinstance(d.value, ast.AST)]
            loops = [unparse(d.node.iter) for d in rd.closure(rd.uses(other)) if d.kind == "for" and isinstance(d.node, ast.For)]
            if any(idish.search(t) for t in texts + loops) and not any(t.startswith("len(") for t in texts[:1]):
                out.append({"fn": fn, "node": node, "other": other, "literal": unparse(lit[0])})
    return out, n


def memo_invalidation(tree: Tree, cls_qual: str) -> list[dict]:
    """Lazily computed attributes (`if self.A is None: self.A = f(self.B, ...)`) and the methods
    that change an input B without resetting A."""
    cls = tree.classes[cls_qual]
    memos: dict[str, dict] = {}

    def self_attr(n):
        return n.attr if isinstance(n, ast.Attribute) and isinstance(n.value, ast.Name) and n.value.id == "self" else None

    for m in cls.methods.values():
        for node in walk_function(m.node):
            if not isinstance(node, ast.If):
                continue
            t = node.test
            a = None
            if isinstance(t, ast.Compare) and len(t.ops) == 1 and isinstance(t.ops[0], ast.Is) and isinstance(t.comparators[0], ast.Constant) and t.comparators[0].value is None:
                a = self_attr(t.left)
            if a is None:
                continue
            stores = [s for s in ast.walk(node) if isinstance(s, ast.Assign) and any(self_attr(x) == a for x in s.targets)]
            if not stores:
                continue
            deps = {self_attr(n) for b in node.body for n in ast.walk(b) if self_attr(n) and self_attr(n) != a and isinstance(n.ctx, ast.Load)}
            memos[a] = {"method": m, "node": node, "deps": {d for d in deps if d}}
    out = []
    for a, info in memos.items():
        for m in cls.methods.values():
            if m is info["method"]:
                continue
            writes = set()
            for node in walk_function(m.node):
                tgt = None
                if isinstance(node, (ast.Assign, ast.AugAssign, ast.AnnAssign)):
                    for x in (node.targets if isinstance(node, ast.Assign) else [node.target]):
                        base = x
                        while isinstance(base, ast.Subscript):
                            base = base.value
                        if self_attr(base):
                            writes.add(self_attr(base))
                elif isinstance(node, ast.Call) and isinstance(node.func, ast.Attribute) and node.func.attr in {"add", "update", "append", "extend", "remove", "discard", "clear", "pop", "insert", "setdefault"}:
                    if self_attr(node.func.value):
                        writes.add(self_attr(node.func.value))
            touched = writes & info["deps"]
            if not touched or m.name == "__init__":
                continue
            resets = a in writes or any(
                isinstance(c, ast.Call) and isinstance(c.func, ast.Attribute) and isinstance(c.func.value, ast.Name) and c.func.value.id == "self"
                and c.func.attr in cls.methods and any(
                    isinstance(s, ast.Assign) and any(self_attr(x) == a for x in s.targets) for s in ast.walk(cls.methods[c.func.attr].node))
                for c in walk_function(m.node))
            out.append({"memo": a, "writer": m, "touched": sorted(touched), "resets": resets, "computed_in": info["method"]})
    return out


# --------------------------------------------------------------------------- R-SIMULSUBS / R-OWNDOIT
def sequential_subs_sites(tree: Tree, module_prefixes: tuple[str, ...]) -> list[dict]:
    """`expr.subs(<mapping with several pairs>)` without simultaneous=True whose replacement values
    are arbitrary expressions (function parameters, self.args, unfolded arguments): SymPy applies the
    pairs one after the other, so a replacement that contains a later key is substituted again
    ({a: b, b: c} sends a to c).  xreplace / simultaneous=True / Dummy keys are the safe forms."""
    out = []
    for q, fn in sorted(tree.funcs.items()):
        if not q.startswith(module_prefixes) or fn.outer is not None:
            continue
        rd = RD(fn.node)
        for node in walk_function(fn.node, nested=True):
            if not (isinstance(node, ast.Call) and isinstance(node.func, ast.Attribute) and node.func.attr == "subs" and len(node.args) == 1):
                continue
            if any(k.arg == "simultaneous" and isinstance(k.value, ast.Constant) and k.value.value is True for k in node.keywords):
                continue
            arg = node.args[0]
            exprs = [arg] + [d.value for d in rd.closure(rd.uses(arg)) if isinstance(d.value, ast.AST)]
            multi = None
            for e in exprs:
                for sub in ast.walk(e):
                    if isinstance(sub, ast.Call) and unparse(sub.func) in {"zip", "dict"} and sub.args:
                        multi = sub
                    if isinstance(sub, ast.Dict) and len(sub.keys) > 1:
                        multi = sub
                    if isinstance(sub, ast.DictComp):
                        multi = sub
            if multi is None:
                continue
            txt = " ".join(unparse(e) for e in exprs)
            arbitrary = any(k in txt for k in ("self.args", ".doit(", "*args")) or any(
                d.kind == "param" for d in rd.closure(rd.uses(arg)))
            dummy = "Dummy(" in txt
            out.append({"fn": fn, "node": node, "arbitrary": arbitrary and not dummy, "mapping": unparse(multi)[:60]})
    return out


# --------------------------------------------------------------------------- R-STRUCTSUBS


def structural_subs_on_params(tree: Tree, module_prefixes: tuple[str, ...]) -> list[dict]:
    """``expr.subs(p, v)`` / ``expr.subs({p: v})`` / ``expr.xreplace({p: v})`` where ``p`` is a
    parameter of the function (or an argument unpacked from ``self.args``) and ``expr`` was built
    from ``p`` with SymPy operations.  The substitution is structural: it only finds ``p`` where
    it survives auto-simplification literally (``sqrt(q2*d**2)`` becomes ``d*sqrt(q2)`` for a
    positive ``d``), so it is a correct way to evaluate 'expr at p = v' only when ``p`` is an
    atomic symbol.  A site is *safe* when every caller inside the package hands a freshly created
    Symbol/Dummy for that parameter."""
    out = []
    callers: dict[str, list[tuple[FuncInfo, ast.Call]]] = {}
    for q, fn in tree.funcs.items():
        for call, callee in tree.calls_in(fn):
            if callee:
                callers.setdefault(callee, []).append((fn, call))
    for q, fn in sorted(tree.funcs.items()):
        if not q.startswith(module_prefixes):
            continue
        rd = RD(fn.node)
        params = set(fn.params)
        for node in walk_function(fn.node):
            if not (isinstance(node, ast.Call) and isinstance(node.func, ast.Attribute) and node.func.attr in {"subs", "xreplace"} and node.args):
                continue
            keys: list[ast.AST] = []
            if node.func.attr == "subs" and len(node.args) == 2:
                keys = [node.args[0]]
            elif isinstance(node.args[0], ast.Dict):
                keys = [k for k in node.args[0].keys if k is not None]
            for k in keys:
                if not isinstance(k, ast.Name):
                    continue
                defs = list(rd.reaching(k))
                is_param = k.id in params and all(d.kind == "param" for d in defs)
                from_args = any(d.value is not None and "self.args" in unparse(d.value) for d in defs)
                if not (is_param or from_args):
                    continue
                # does the receiver depend on the key?
                recv_names = {n.id for n in ast.walk(node.func.value) if isinstance(n, ast.Name)}
                recv_defs = rd.closure(rd.uses(node.func.value))
                depends = k.id in recv_names or any(
                    d.value is not None and any(isinstance(n, ast.Name) and n.id == k.id for n in ast.walk(d.value)) for d in recv_defs)
                if not depends:
                    continue
                unsafe_callers = []
                if is_param:
                    pos = fn.params.index(k.id)
                    sites = callers.get(q, [])
                    for cfn, call in sites:
                        arg = None
                        off = 1 if fn.cls is not None and fn.params and fn.params[0] in {"self", "cls"} else 0
                        if pos - off < len(call.args) and pos - off >= 0:
                            arg = call.args[pos - off]
                        for kw in call.keywords:
                            if kw.arg == k.id:
                                arg = kw.value
                        if arg is None:
                            continue
                        fresh = False
                        if isinstance(arg, ast.Name):
                            crd = RD(cfn.node)
                            adefs = [d for d in crd.reaching(arg)]
                            fresh = bool(adefs) and all(
                                d.value is not None and isinstance(d.value, ast.Call) and unparse(d.value.func).split(".")[-1] in {"Symbol", "Dummy", "symbols"} for d in adefs)
                        if not fresh:
                            unsafe_callers.append(f"{cfn.qual}: `{unparse(arg)[:40]}`")
                    if sites and not unsafe_callers:
                        continue
                out.append({"fn": fn, "node": node, "key": k.id, "callers": unsafe_callers or ["(an argument of the expression: arbitrary)"]})
    return out
