"""Reusable rule shapes (DESIGN.md section 2) shared by several properties."""

from __future__ import annotations

import ast
import re
from typing import Iterable, Iterator

from .dataflow import RD, attr_chain
from .exprmodel import ExprClass
from .loader import AnalysisError, ClassInfo, FuncInfo, Tree, unparse, walk_function

# --------------------------------------------------------------------------- R-SHALLOW

DEEP_SOURCES = {
    "dataclasses.astuple": "recurses into every field value that is itself a dataclass instance "
    "(every @unevaluated class is a dataclass), turning nested expressions into plain tuples",
    "dataclasses.asdict": "recurses into nested dataclass instances",
    "copy.deepcopy": "copies nested expressions instead of handing them out",
}
FIELDS_FUNCS = {"dataclasses.fields"}


def reach_functions(tree: Tree, start: FuncInfo, depth: int = 3) -> list[tuple[FuncInfo, tuple[str, ...]]]:
    """Repo functions reachable from ``start`` through resolved calls (bounded depth)."""
    out: list[tuple[FuncInfo, tuple[str, ...]]] = [(start, (start.qual,))]
    seen = {start.qual}
    frontier = [(start, (start.qual,))]
    for _ in range(depth):
        nxt = []
        for fn, path in frontier:
            for _call, callee in tree.calls_in(fn):
                if callee and callee in tree.funcs and callee not in seen:
                    seen.add(callee)
                    item = (tree.funcs[callee], (*path, callee))
                    out.append(item)
                    nxt.append(item)
        frontier = nxt
    return out


def external_calls(tree: Tree, fn: FuncInfo) -> Iterator[tuple[ast.Call, str]]:
    for call, callee in tree.calls_in(fn):
        if callee and "::" not in callee:
            yield call, callee


def argument_sources(tree: Tree, fn: FuncInfo, self_name: str = "self") -> list[dict]:
    """How does ``fn`` (a hook taking the instance as first parameter) read the
    instance's arguments?  Returns a list of recognised sources:

    * kind "args"     - ``<inst>.args``
    * kind "fields"   - comprehension/loop over ``dataclasses.fields(<inst>)`` producing
      ``getattr(<inst>, f.name)``; ``filtered`` tells whether an ``if`` restricts it
    * kind "deep"     - a call of a DEEP_SOURCES callable on the instance
    """
    found: list[dict] = []
    inst = fn.params[0] if fn.params else self_name
    for node in walk_function(fn.node):
        if isinstance(node, ast.Attribute) and node.attr in {"args", "_args"}:
            if isinstance(node.value, ast.Name) and node.value.id == inst:
                found.append({"kind": "args", "node": node})
        if isinstance(node, ast.Call):
            callee = tree.callee(node, fn)
            if callee in DEEP_SOURCES:
                found.append({"kind": "deep", "node": node, "callee": callee})
            if callee in {"operator.attrgetter", "operator.itemgetter"} and (any(isinstance(a, ast.Starred) for a in node.args) or len(node.args) == 1):
                # attrgetter(*names)(obj): a tuple for >= 2 names, the bare value for one name
                found.append({"kind": "getter-arity", "node": node, "callee": callee})
        if isinstance(node, (ast.GeneratorExp, ast.ListComp, ast.SetComp)):
            for gen in node.generators:
                if isinstance(gen.iter, ast.Call) and tree.callee(gen.iter, fn) in FIELDS_FUNCS | {
                    "ampform.sympy._decorator::get_sympy_fields"
                }:
                    elt = node.elt
                    getattrs = [
                        c
                        for c in ast.walk(elt)
                        if isinstance(c, ast.Call) and isinstance(c.func, ast.Name) and c.func.id == "getattr"
                    ]
                    if getattrs:
                        filtered = bool(gen.ifs) or tree.callee(gen.iter, fn) not in FIELDS_FUNCS
                        found.append({
                            "kind": "fields",
                            "node": node,
                            "filtered": filtered,
                            "filter": [unparse(i) for i in gen.ifs],
                        })
    return found


# --------------------------------------------------------------------------- R-ARITY


def args_image(val: ast.AST, inst: str = "self") -> bool | None:
    """Is ``val`` the sequence ``<inst>.args`` element by element - the tuple itself, ``tuple(..)`` / ``list(..)`` / ``[:]`` of
    it, or an element-wise image (``map(f, ..)``, ``[f(a) for a in ..]``)?  Returns whether the elements were mapped,
    or None if ``val`` is something else."""
    through = False
    for _ in range(12):
        if isinstance(val, ast.Attribute) and val.attr in {"args", "_args"} and isinstance(val.value, ast.Name) and val.value.id == inst:
            return through
        if isinstance(val, ast.Call) and isinstance(val.func, ast.Name) and val.func.id in {"tuple", "list", "iter"} and len(val.args) == 1 and not val.keywords:
            val = val.args[0]
        elif isinstance(val, ast.Call) and isinstance(val.func, ast.Name) and val.func.id == "map" and len(val.args) == 2 and not val.keywords:
            val, through = val.args[1], True
        elif isinstance(val, (ast.ListComp, ast.GeneratorExp)) and len(val.generators) == 1 and not val.generators[0].ifs and not val.generators[0].is_async:
            val, through = val.generators[0].iter, True
        elif isinstance(val, ast.Subscript) and isinstance(val.slice, ast.Slice) and val.slice.lower is None and val.slice.upper is None and val.slice.step is None:
            val = val.value
        else:
            return None
    return None


def _value_inliner(fn: FuncInfo, tree: Tree | None):
    """Substitution of single-definition locals and (with a tree) of calls of package helpers by the value they return."""
    from .inline import CallInliner, Inliner

    try:
        return CallInliner(tree, fn) if tree is not None else Inliner(fn.node)
    except Exception:  # noqa: BLE001 - an inliner that cannot be built only means: read the expression as written
        return None


def self_args_unpackings(fn: FuncInfo, tree: Tree | None = None) -> Iterator[tuple[ast.Assign, list[ast.AST], bool]]:
    """``a, b, c = self.args`` / ``a, b = map(f, self.args)`` / ``a, b = [f(x) for x in self.args]`` inside ``fn`` - also when
    the sequence is first bound to a local or (with ``tree``) produced by a helper of the package that returns it
    (``a, b = _print_arguments(printer, self)``).

    Yields (statement, target elements, through_map)."""
    inl = None
    for node in walk_function(fn.node):
        if not isinstance(node, ast.Assign) or len(node.targets) != 1:
            continue
        tgt = node.targets[0]
        if not isinstance(tgt, (ast.Tuple, ast.List)):
            continue
        through = args_image(node.value)
        if through is None and not isinstance(node.value, (ast.Tuple, ast.List, ast.Constant)):
            if inl is None:
                inl = _value_inliner(fn, tree) or False
            if inl:
                try:
                    through = args_image(inl.expr(node.value))
                except Exception:  # noqa: BLE001
                    through = None
        if through is not None:
            yield node, list(tgt.elts), through


def args_star_calls(tree: Tree, fn: FuncInfo) -> Iterator[tuple[ast.Call, FuncInfo, int]]:
    """``helper(x, *self.args, ...)`` inside ``fn`` where ``helper`` is a function of the package: the SymPy arguments are bound
    to the helper's parameters by position.  Yields (call, callee, number of positional arguments before the star)."""
    inl = None
    for node in walk_function(fn.node):
        if not isinstance(node, ast.Call):
            continue
        stars = [i for i, a in enumerate(node.args) if isinstance(a, ast.Starred)]
        if len(stars) != 1:
            continue
        val = node.args[stars[0]].value
        image = args_image(val)
        if image is None and isinstance(val, ast.Name):
            if inl is None:
                inl = _value_inliner(fn, tree) or False
            if inl:
                try:
                    image = args_image(inl.expr(val))
                except Exception:  # noqa: BLE001
                    image = None
        if image is None:
            continue
        callee = tree.funcs.get(tree.callee(node, tree.func_of(node) or fn) or "")
        if callee is not None:
            yield node, callee, stars[0]


def args_index_reads(fn: FuncInfo) -> Iterator[tuple[ast.Subscript, int, str | None]]:
    """``self.args[k]`` with a literal k inside ``fn``.  Yields (node, k, name of the local it is stored in - directly or
    through ``printer._print(..)`` - or None)."""
    from .loader import parent

    inl = None
    for node in walk_function(fn.node):
        if not (isinstance(node, ast.Subscript) and isinstance(node.ctx, ast.Load)):
            continue
        image = args_image(node.value)
        if image is None and isinstance(node.value, ast.Name):  # `printed = list(map(printer._print, self.args)); printed[2]`
            if inl is None:
                inl = _value_inliner(fn, None) or False
            if inl:
                try:
                    image = args_image(inl.expr(node.value))
                except Exception:  # noqa: BLE001
                    image = None
        if image is None:
            continue
        idx = node.slice
        if isinstance(idx, ast.UnaryOp) and isinstance(idx.op, ast.USub) and isinstance(idx.operand, ast.Constant) and isinstance(idx.operand.value, int):
            k = -idx.operand.value
        elif isinstance(idx, ast.Constant) and isinstance(idx.value, int) and not isinstance(idx.value, bool):
            k = idx.value
        else:
            continue
        holder: ast.AST | None = parent(node)
        if isinstance(holder, ast.Call) and isinstance(holder.func, ast.Attribute) and (holder.func.attr.startswith("_print") or holder.func.attr == "doprint") and holder.args and holder.args[0] is node:
            holder = parent(holder)
        target = None
        if isinstance(holder, ast.Assign) and len(holder.targets) == 1 and isinstance(holder.targets[0], ast.Name):
            target = holder.targets[0].id
        elif isinstance(holder, ast.AnnAssign) and isinstance(holder.target, ast.Name):
            target = holder.target.id
        yield node, k, target


def check_arity(cls: ExprClass, elts: list[ast.AST]) -> str | None:
    """None if the unpacking is consistent with the class's SymPy fields."""
    fields = [f.name for f in cls.sympy_fields]
    star = [i for i, e in enumerate(elts) if isinstance(e, ast.Starred)]
    if len(star) > 1:
        return "more than one starred target"
    if not star and len(elts) != len(fields):
        return f"{len(elts)} targets for {len(fields)} SymPy fields {fields}"
    if star and len(elts) - 1 > len(fields):
        return f"at least {len(elts) - 1} targets for {len(fields)} SymPy fields {fields}"
    # a target that carries the name of a field must sit at that field's position
    n = len(elts)
    for i, e in enumerate(elts):
        if isinstance(e, ast.Starred) or not isinstance(e, ast.Name) or e.id == "_":
            continue
        if e.id in fields:
            pos = i if not star or i < star[0] else len(fields) - (n - i)
            if fields.index(e.id) != pos:
                return f"target '{e.id}' at position {pos} but field '{e.id}' is at position {fields.index(e.id)} of {fields}"
    return None


# --------------------------------------------------------------------------- R-PRINT


def printer_methods(tree: Tree, names=("_numpycode", "_pythoncode")) -> list[FuncInfo]:
    out = []
    for q, fn in tree.funcs.items():
        if q.startswith("ampform") and fn.cls is not None and fn.outer is None and fn.name in names:
            out.append(fn)
    return out


def _is_print_call(node: ast.AST, printer: str) -> bool:
    """``printer._print(...)`` / ``printer.doprint(...)`` / ``printer._print_X(...)``."""
    if isinstance(node, ast.Call) and isinstance(node.func, ast.Attribute):
        f = node.func
        if isinstance(f.value, ast.Name) and f.value.id == printer and (f.attr.startswith("_print") or f.attr == "doprint" or f.attr == "parenthesize"):
            return True
    return False


def _is_print_map(node: ast.AST, printer: str) -> bool:
    if isinstance(node, ast.Call) and isinstance(node.func, ast.Name) and node.func.id in {"map"} and node.args:
        f = node.args[0]
        return isinstance(f, ast.Attribute) and isinstance(f.value, ast.Name) and f.value.id == printer and f.attr.startswith("_print")
    return False


class PrintTaint:
    """Classifies every value interpolated into generated code inside a printer method.

    A value is *printed* when it derives only from printer calls, string/number literals,
    other printed values, string methods / joins / f-strings of printed values, or
    class-level literal constants reached as ``self.<NAME>``.  Anything that derives from
    ``self.args`` / ``self.<field>`` without passing the printer is *raw*.
    """

    def __init__(self, tree: Tree, fn: FuncInfo, class_literals: set[str], safe_methods: set[str]):
        self.tree = tree
        self.fn = fn
        self.printer = fn.params[1] if len(fn.params) > 1 else "printer"
        self.rd = RD(fn.node)
        self.class_literals = class_literals
        self.safe_methods = safe_methods
        self._memo: dict[int, tuple[bool, str]] = {}

    def classify(self, node: ast.AST, depth: int = 0) -> tuple[bool, str]:
        """(is_printed, reason-if-not)."""
        if depth > 40:
            return False, "too deep"
        p = self.printer
        if isinstance(node, ast.Constant):
            return True, ""
        if isinstance(node, ast.JoinedStr):
            for v in node.values:
                if isinstance(v, ast.FormattedValue):
                    ok, why = self.classify(v.value, depth + 1)
                    if not ok:
                        return ok, why
            return True, ""
        if _is_print_call(node, p) or _is_print_map(node, p):
            return True, ""
        if isinstance(node, ast.Call):
            f = node.func
            # "sep".join(x), x.format(...), str methods on printed strings
            if isinstance(f, ast.Attribute) and f.attr in {"join", "format", "strip", "replace", "lower", "upper"}:
                parts = [f.value, *node.args, *[k.value for k in node.keywords]]
                for part in parts:
                    ok, why = self.classify(part, depth + 1)
                    if not ok:
                        return ok, why
                return True, ""
            if isinstance(f, ast.Name) and f.id in {"len", "str", "int", "repr", "list", "tuple", "sorted", "range", "enumerate", "zip"}:
                if f.id in {"len", "int", "range"}:
                    return True, ""
                for part in node.args:
                    ok, why = self.classify(part, depth + 1)
                    if not ok:
                        return ok, why
                return True, ""
            # helper methods of the same class that return strings built from integers only
            if isinstance(f, ast.Attribute) and isinstance(f.value, ast.Name) and f.value.id in {"self", "cls"} and f.attr in self.safe_methods:
                return True, ""
            # helper method of the same class that receives the printer: judge its returns
            if isinstance(f, ast.Attribute) and isinstance(f.value, ast.Name) and f.value.id in {"self", "cls"} and self.fn.cls is not None:
                helper = self.tree.lookup_method(self.fn.cls, f.attr)
                passes_printer = any(isinstance(a, ast.Name) and a.id == p for a in [*node.args, *[k.value for k in node.keywords]])
                if helper is not None and passes_printer and depth < 6 and helper is not self.fn:
                    idx = next(i for i, a in enumerate(node.args) if isinstance(a, ast.Name) and a.id == p) if any(isinstance(a, ast.Name) and a.id == p for a in node.args) else None
                    sub = PrintTaint(self.tree, helper, self.class_literals, self.safe_methods)
                    if idx is not None and len(helper.params) > idx + 1:
                        sub.printer = helper.params[idx + 1]
                    else:
                        kw = next((k.arg for k in node.keywords if isinstance(k.value, ast.Name) and k.value.id == p), None)
                        if kw:
                            sub.printer = kw
                    rets = [n for n in walk_function(helper.node, nested=False) if isinstance(n, ast.Return) and n.value is not None]
                    if rets:
                        for r in rets:
                            ok, why = sub.classify(r.value, depth + 1)
                            if not ok:
                                return False, f"helper {helper.qual}: {why}"
                        return True, ""
            return False, f"value of call {unparse(node)[:60]} does not pass the printer"
        if isinstance(node, ast.Attribute):
            chain = attr_chain(node)
            if chain and chain.startswith("self.") and chain.count(".") == 1 and node.attr in self.class_literals:
                return True, ""
            return False, f"'{unparse(node)}' is interpolated without printer._print"
        if isinstance(node, ast.Name):
            defs = self.rd.reaching(node) if isinstance(node.ctx, ast.Load) else set()
            if not defs:
                return False, f"no definition reaches '{node.id}'"
            for d in defs:
                ok, why = self._classify_def(d, depth + 1)
                if not ok:
                    return ok, why
            return True, ""
        if isinstance(node, (ast.BinOp,)):
            for part in (node.left, node.right):
                ok, why = self.classify(part, depth + 1)
                if not ok:
                    return ok, why
            return True, ""
        if isinstance(node, ast.IfExp):
            for part in (node.body, node.orelse):
                ok, why = self.classify(part, depth + 1)
                if not ok:
                    return ok, why
            return True, ""
        if isinstance(node, (ast.ListComp, ast.GeneratorExp, ast.SetComp)):
            return self.classify(node.elt, depth + 1)
        if isinstance(node, (ast.Tuple, ast.List)):
            for e in node.elts:
                ok, why = self.classify(e, depth + 1)
                if not ok:
                    return ok, why
            return True, ""
        if isinstance(node, ast.Subscript):
            return self.classify(node.value, depth + 1)
        if isinstance(node, ast.Starred):
            return self.classify(node.value, depth + 1)
        return False, f"unrecognised construct {type(node).__name__}: {unparse(node)[:60]}"

    def _classify_def(self, d, depth: int) -> tuple[bool, str]:
        key = id(d)
        if key in self._memo:
            return self._memo[key]
        self._memo[key] = (True, "")  # cycles (loops) are optimistic on the back edge
        if d.kind == "param":
            res = (False, f"parameter '{d.name}' interpolated raw")
        elif d.kind in {"assign", "comp", "for", "aug", "store", "with"} and d.value is not None:
            res = self.classify(d.value, depth)
            if d.kind in {"aug", "store"} and res[0]:
                for dep in d.deps:
                    if dep.name == d.name and dep is not d:
                        res = self._classify_def(dep, depth + 1)
                        if not res[0]:
                            break
        else:
            res = (False, f"definition of '{d.name}' ({d.kind}) is not a printed string")
        self._memo[key] = res
        return res

    def interpolations(self) -> Iterator[tuple[ast.AST, ast.AST]]:
        """(container, interpolated expression) for every f-string placeholder,
        %-operand and .format() argument that reaches a ``return``."""
        for node in walk_function(self.fn.node):
            if isinstance(node, ast.JoinedStr):
                for v in node.values:
                    if isinstance(v, ast.FormattedValue):
                        yield node, v.value
            elif isinstance(node, ast.BinOp) and isinstance(node.op, ast.Mod) and isinstance(node.left, (ast.Constant, ast.JoinedStr)):
                if isinstance(node.left, ast.Constant) and not isinstance(node.left.value, str):
                    continue
                operands = node.right.elts if isinstance(node.right, ast.Tuple) else [node.right]
                for o in operands:
                    yield node, o
            elif isinstance(node, ast.Call) and isinstance(node.func, ast.Attribute) and node.func.attr == "format":
                if isinstance(node.func.value, ast.Constant) and isinstance(node.func.value.value, str):
                    for o in [*node.args, *[k.value for k in node.keywords]]:
                        yield node, o


def class_literal_attrs(tree: Tree, fn: FuncInfo) -> set[str]:
    """Names of class-level attributes (whole MRO, repo part) whose value is a literal."""
    out: set[str] = set()
    if fn.cls is None:
        return out
    for c in tree.mro(fn.cls):
        for st in c.node.body:
            if isinstance(st, ast.Assign) and isinstance(st.value, ast.Constant):
                for t in st.targets:
                    if isinstance(t, ast.Name):
                        out.add(t.id)
            if isinstance(st, ast.AnnAssign) and isinstance(st.value, ast.Constant) and isinstance(st.target, ast.Name):
                out.add(st.target.id)
    return out


def string_only_methods(tree: Tree, fn: FuncInfo) -> set[str]:
    """Methods of the class (static helpers) whose parameters are all annotated int/str:
    their results cannot contain an unprinted SymPy object."""
    out: set[str] = set()
    if fn.cls is None:
        return out
    for c in tree.mro(fn.cls):
        for name, m in c.methods.items():
            args = [a for a in m.node.args.args if a.arg not in {"self", "cls"}]
            if args and all(a.annotation is not None and unparse(a.annotation) in {"int", "str"} for a in args):
                out.add(name)
    return out


def require(cond: bool, what: str) -> None:
    if not cond:
        raise AnalysisError(what)


# --------------------------------------------------------------------------- R-SYMPAIR

SYMBOL_CTORS = {"sympy.Symbol": "Symbol", "sympy.symbols": "symbols", "sympy.IndexedBase": "IndexedBase", "sympy.Dummy": "Dummy"}


def _skeleton(node: ast.AST) -> str | None:
    if isinstance(node, ast.Constant) and isinstance(node.value, str):
        return node.value
    if isinstance(node, ast.JoinedStr):
        return "".join(str(v.value) if isinstance(v, ast.Constant) else "{}" for v in node.values)
    return None


class NameReader:
    """Abstract evaluation of a ``str``-valued expression into NAME SKELETONS (R-SYMPAIR engine).

    ``NameReader(tree).read(node, fn)`` returns the alternatives the expression can evaluate to, each a tuple of
    parts: literal text (``str``) or a hole ``("hole", provenance)`` for a piece that is only known at run time.
    What is read (so that the spelling of a name does not matter):

    * literals, f-strings (``!s`` / no format spec), ``a + b``, ``"...%s..." % x``, ``"...{}...".format(x)``,
      ``sep.join([a, b])`` over a known sequence, ``str(x)``, conditional expressions / ``or`` (both alternatives),
    * locals through their reaching definitions (several definitions = several alternatives; ``s += t``; tuple
      unpacking from a display), module-level string constants,
    * loop / comprehension variables over a KNOWN sequence (a display, a module-level constant tuple,
      ``enumerate`` / ``zip`` / ``sorted`` / ``tuple`` / ``list`` of one): one alternative per element,
    * parameters of private helpers and nested functions (every caller is in the package): the alternatives of the
      argument at each call site (default value if not passed); a call of a private helper that returns a ``str``
      is read through its ``return`` expressions with the arguments bound,
    * anything else (calls of public functions, attributes, subscripts, parameters of public functions) is a hole
      whose provenance names where the piece comes from (``call:<function>``, ``param``, ``attr``, ...).

    ``text(alt)`` renders an alternative as a skeleton (hole -> ``{}``); an alternative that is ONE hole says
    nothing about the name (``None``: computed at run time).  Nothing is executed.
    """

    MAX_ALTS = 48
    MAX_DEPTH = 14
    SEQ_WRAPPERS = {"sorted", "tuple", "list", "reversed", "set", "frozenset", "iter"}

    def __init__(self, tree: Tree) -> None:
        self.tree = tree
        self._rds: dict[int, RD] = {}
        self._callers: dict[str, list[tuple[FuncInfo, ast.Call]]] | None = None

    # ------------------------------------------------------------------ helpers
    @staticmethod
    def hole(prov: str) -> tuple:
        return (("hole", prov),)

    @staticmethod
    def text(alt: tuple) -> str | None:
        if len(alt) == 1 and not isinstance(alt[0], str):
            return None
        return "".join(p if isinstance(p, str) else "{}" for p in alt)

    @staticmethod
    def provenances(alt: tuple) -> list[str]:
        return [p[1] for p in alt if not isinstance(p, str)]

    @staticmethod
    def _norm(parts) -> tuple:
        out: list = []
        for p in parts:
            if isinstance(p, str):
                if not p:
                    continue
                if out and isinstance(out[-1], str):
                    out[-1] += p
                    continue
            out.append(p)
        return tuple(out)

    def _concat(self, a: set, b: set) -> set:
        out = {self._norm([*x, *y]) for x in a for y in b}
        return out if len(out) <= self.MAX_ALTS else {self.hole("too-many-alternatives")}

    def rd(self, fn: FuncInfo) -> RD:
        root = fn
        while root.outer is not None:
            root = root.outer
        if id(root.node) not in self._rds:  # (an effective function of sa/inline.py has the qualname of the original)
            self._rds[id(root.node)] = RD(root.node)
        return self._rds[id(root.node)]

    def callers(self, fn: FuncInfo) -> list[tuple[FuncInfo, ast.Call]]:
        if self._callers is None:
            self._callers = {}
            for g in self.tree.funcs.values():
                for node in walk_function(g.node, nested=False):
                    for call in ([node] if isinstance(node, ast.Call) else []):
                        q = self.tree.callee(call, g)
                        if q in self.tree.funcs:
                            self._callers.setdefault(q, []).append((g, call))
                    if isinstance(node, ast.Lambda):
                        for call in [n for n in ast.walk(node) if isinstance(n, ast.Call)]:
                            q = self.tree.callee(call, g)
                            if q in self.tree.funcs:
                                self._callers.setdefault(q, []).append((g, call))
        return self._callers.get(fn.qual, [])

    def is_private(self, fn: FuncInfo) -> bool:
        """Every caller is visible: a nested function, or a `_name` that is not a dunder and is never passed around
        as a value."""
        n = fn.name
        if fn.outer is None and (not n.startswith("_") or (n.startswith("__") and n.endswith("__"))):
            return False
        cached = getattr(fn, "_never_a_value", None)
        if cached is None:
            cached = True
            for node in ast.walk(fn.outer.node if fn.outer is not None else fn.module.tree):
                ref = (isinstance(node, ast.Name) and node.id == n) or (isinstance(node, ast.Attribute) and node.attr == n)
                if ref and isinstance(node.ctx, ast.Load):
                    par = getattr(node, "_parent", None)
                    if not (isinstance(par, ast.Call) and par.func is node):
                        cached = False
                        break
            fn._never_a_value = cached  # type: ignore[attr-defined]
        return cached

    def bind(self, fn: FuncInfo, call: ast.Call) -> dict[str, ast.AST] | None:
        """parameter -> argument expression of one call (None: `*args` / `**kwargs` involved)."""
        a = fn.node.args
        if a.vararg or a.kwarg or any(isinstance(x, ast.Starred) for x in call.args) or any(k.arg is None for k in call.keywords):
            return None
        pos = [x.arg for x in [*a.posonlyargs, *a.args]]
        is_static = any(unparse(d) == "staticmethod" for d in fn.node.decorator_list)
        if fn.cls is not None and fn.outer is None and not is_static and pos:
            recv = call.func.value if isinstance(call.func, ast.Attribute) else None
            if recv is not None and self.tree.resolve(call._module, recv, self.tree.func_of(call)) in self.tree.classes:  # type: ignore[attr-defined]
                pass  # Class.method(obj, ...): self is positional
            else:
                pos = pos[1:]
        if len(call.args) > len(pos):
            return None
        bound: dict[str, ast.AST] = dict(zip(pos, call.args))
        kwonly = [x.arg for x in a.kwonlyargs]
        for k in call.keywords:
            if k.arg in bound or k.arg not in [*pos, *kwonly]:
                return None
            bound[k.arg] = k.value
        all_pos = [x.arg for x in [*a.posonlyargs, *a.args]]
        defaults = dict(zip(all_pos[len(all_pos) - len(a.defaults):], a.defaults)) if a.defaults else {}
        defaults.update({k: d for k, d in zip(kwonly, a.kw_defaults) if d is not None})
        for p in [*pos, *kwonly]:
            if p not in bound and p in defaults:
                bound[p] = defaults[p]
        return bound

    # ------------------------------------------------------------------ sequences
    def elements(self, node: ast.AST, fn: FuncInfo, depth: int = 0) -> list[ast.AST] | None:
        """Element expressions of a sequence that is known statically (None otherwise)."""
        if depth > 6:
            return None
        if isinstance(node, (ast.Tuple, ast.List, ast.Set)):
            return None if any(isinstance(e, ast.Starred) for e in node.elts) else list(node.elts)
        if isinstance(node, ast.Dict):
            return None if any(k is None for k in node.keys) else list(node.keys)
        if isinstance(node, ast.Call) and isinstance(node.func, ast.Name) and node.args and not any(isinstance(a, ast.Starred) for a in node.args):
            name = node.func.id
            if name in self.SEQ_WRAPPERS:
                return self.elements(node.args[0], fn, depth + 1)
            if name == "enumerate":
                inner = self.elements(node.args[0], fn, depth + 1)
                if inner is not None:
                    return [ast.Tuple(elts=[ast.Constant(value=i), e], ctx=ast.Load()) for i, e in enumerate(inner)]
            if name == "zip":
                cols = [self.elements(a, fn, depth + 1) for a in node.args]
                if all(c is not None for c in cols) and len({len(c) for c in cols}) == 1:
                    return [ast.Tuple(elts=list(row), ctx=ast.Load()) for row in zip(*cols)]
            return None
        if isinstance(node, ast.Call) and isinstance(node.func, ast.Attribute) and node.func.attr in {"items", "keys", "values"} and not node.args \
                and isinstance(node.func.value, ast.Dict) and all(k is not None for k in node.func.value.keys):
            d = node.func.value
            if node.func.attr == "keys":
                return list(d.keys)
            if node.func.attr == "values":
                return list(d.values)
            return [ast.Tuple(elts=[k, v], ctx=ast.Load()) for k, v in zip(d.keys, d.values)]
        if isinstance(node, ast.Name):
            defs = self.rd(fn).reaching(node)
            if len(defs) == 1:
                d = next(iter(defs))
                if d.kind == "assign" and d.value is not None and d.index is None:
                    return self.elements(d.value, fn, depth + 1)
                return None
            if not defs:
                top = self._toplevel(node, fn)
                if top is not None:
                    return self.elements(top, fn, depth + 1)
        if isinstance(node, ast.Attribute):
            top = self._toplevel(node, fn)
            if top is not None:
                return self.elements(top, fn, depth + 1)
        return None

    def _toplevel(self, node: ast.AST, fn: FuncInfo) -> ast.AST | None:
        """The value of a module-level constant ``NAME = <expr>`` that is assigned once."""
        mod = getattr(node, "_module", None) or fn.module
        q = self.tree.resolve(mod, node, fn)
        if not q or "::" not in q:
            return None
        modname, _, name = q.partition("::")
        m = self.tree.modules.get(modname)
        if m is None or "." in name:
            return None
        st = m.toplevel.get(name)
        if isinstance(st, (ast.Assign, ast.AnnAssign)) and st.value is not None:
            n_stores = sum(1 for s in m.tree.body for t in (s.targets if isinstance(s, ast.Assign) else [s.target] if isinstance(s, (ast.AnnAssign, ast.AugAssign)) else [])
                           if isinstance(t, ast.Name) and t.id == name)
            if n_stores == 1:
                for n in ast.walk(st.value):
                    if not hasattr(n, "_module"):
                        n._module = m  # type: ignore[attr-defined]
                return st.value
        return None

    # ------------------------------------------------------------------ evaluation
    def read(self, node: ast.AST, fn: FuncInfo, env: dict | None = None, depth: int = 0, stack: tuple = ()) -> set:
        if depth > self.MAX_DEPTH:
            return {self.hole("depth")}
        ev = lambda n: self.read(n, fn, env, depth + 1, stack)  # noqa: E731
        if isinstance(node, ast.Constant):
            if isinstance(node.value, (str, int)) and not isinstance(node.value, bool):
                return {self._norm([str(node.value)])} if str(node.value) else {()}
            return {self.hole("constant")}
        if isinstance(node, ast.JoinedStr):
            out = {()}
            for v in node.values:
                if isinstance(v, ast.Constant):
                    out = self._concat(out, {self._norm([str(v.value)])})
                elif isinstance(v, ast.FormattedValue) and v.format_spec is None and v.conversion in (-1, 115):
                    out = self._concat(out, ev(v.value))
                else:
                    out = self._concat(out, {self.hole("formatted")})
            return out
        if isinstance(node, ast.FormattedValue):
            return ev(node.value)
        if isinstance(node, ast.BinOp) and isinstance(node.op, ast.Add):
            return self._concat(ev(node.left), ev(node.right))
        if isinstance(node, ast.BinOp) and isinstance(node.op, ast.Mod) and isinstance(node.left, ast.Constant) and isinstance(node.left.value, str):
            args = node.right.elts if isinstance(node.right, ast.Tuple) else [node.right]
            pieces = re.split(r"(%%|%[sdir])", node.left.value)
            n_spec = sum(1 for p in pieces if re.fullmatch(r"%[sdir]", p))
            if "%(" in node.left.value or n_spec != len(args) or re.search(r"%[^sdir%]", node.left.value):
                return {self.hole("percent-format")}
            out, it = {()}, iter(args)
            for p in pieces:
                if p == "%%":
                    out = self._concat(out, {("%",)})
                elif re.fullmatch(r"%[sdir]", p):
                    a = next(it)
                    out = self._concat(out, ev(a) if p != "%r" else {self.hole("repr")})
                elif p:
                    out = self._concat(out, {(p,)})
            return out
        if isinstance(node, ast.IfExp):
            return self._cap(ev(node.body) | ev(node.orelse))
        if isinstance(node, ast.BoolOp):
            out = set()
            for v in node.values:
                out |= ev(v)
            return self._cap(out)
        if isinstance(node, ast.NamedExpr):
            return ev(node.value)
        if isinstance(node, ast.Name):
            return self._name(node, fn, env, depth, stack)
        if isinstance(node, ast.Subscript):
            elts = self.elements(node.value, fn)
            if elts is not None and isinstance(node.slice, ast.Constant) and isinstance(node.slice.value, int) and -len(elts) <= node.slice.value < len(elts):
                return ev(elts[node.slice.value])
            return {self.hole("subscript:" + _head_name(node.value))}
        if isinstance(node, ast.Attribute):
            top = self._toplevel(node, fn)
            if top is not None:
                return self.read(top, fn, None, depth + 1, stack)
            return {self.hole("attr:" + node.attr)}
        if isinstance(node, ast.Call):
            return self._call(node, fn, env, depth, stack)
        return {self.hole(type(node).__name__)}

    def _cap(self, alts: set) -> set:
        return alts if len(alts) <= self.MAX_ALTS else {self.hole("too-many-alternatives")}

    def _call(self, node: ast.Call, fn: FuncInfo, env, depth: int, stack: tuple) -> set:
        ev = lambda n: self.read(n, fn, env, depth + 1, stack)  # noqa: E731
        f = node.func
        if isinstance(f, ast.Name) and f.id == "str" and len(node.args) == 1 and not node.keywords:
            return ev(node.args[0])
        if isinstance(f, ast.Attribute) and f.attr == "format" and isinstance(f.value, ast.Constant) and isinstance(f.value.value, str):
            import string

            if any(isinstance(a, ast.Starred) for a in node.args) or any(k.arg is None for k in node.keywords):
                return {self.hole("format")}
            out, auto = {()}, 0
            try:
                fields = list(string.Formatter().parse(f.value.value))
            except ValueError:
                return {self.hole("format")}
            for lit, field, spec, conv in fields:
                if lit:
                    out = self._concat(out, {(lit,)})
                if field is None:
                    continue
                arg = None
                if field == "":
                    arg = node.args[auto] if auto < len(node.args) else None
                    auto += 1
                elif field.isdigit():
                    arg = node.args[int(field)] if int(field) < len(node.args) else None
                else:
                    arg = next((k.value for k in node.keywords if k.arg == field), None)
                out = self._concat(out, ev(arg) if arg is not None and not spec and conv in (None, "s") else {self.hole("format")})
            return out
        if isinstance(f, ast.Attribute) and f.attr == "join" and len(node.args) == 1 and not node.keywords:
            seps = ev(f.value)
            elts = self.elements(node.args[0], fn)
            if elts is not None and all(len(s) <= 1 and all(isinstance(p, str) for p in s) for s in seps):
                out = set()
                for s in seps:
                    cur = {()}
                    for i, e in enumerate(elts):
                        if i:
                            cur = self._concat(cur, {s})
                        cur = self._concat(cur, ev(e))
                    out |= cur
                return self._cap(out)
            return {self.hole("join")}
        scope = self.tree.func_of(node) or fn
        q = self.tree.callee(node, scope) if hasattr(node, "_module") else None
        g = self.tree.funcs.get(q) if q else None
        if g is not None and self.is_private(g) and g.qual not in stack and len(stack) < 4 and isinstance(g.node, ast.FunctionDef) \
                and not any(isinstance(n, (ast.Yield, ast.YieldFrom)) for n in walk_function(g.node, nested=False)):
            bound = self.bind(g, node)
            rets = [n for n in walk_function(g.node, nested=False) if isinstance(n, ast.Return)]
            if bound is not None and rets and all(r.value is not None for r in rets):
                sub_env = {p: ev(a) for p, a in bound.items()}
                out = set()
                for r in rets:
                    out |= self.read(r.value, g, sub_env, depth + 1, (*stack, g.qual))
                return self._cap(out)
        if q:
            return {self.hole("call:" + q.split("::")[-1].split(".")[-1])}
        return {self.hole("call:" + (f.attr if isinstance(f, ast.Attribute) else f.id if isinstance(f, ast.Name) else "?"))}

    def _name(self, node: ast.Name, fn: FuncInfo, env, depth: int, stack: tuple) -> set:
        defs = self.rd(fn).reaching(node)
        if not defs:
            top = self._toplevel(node, fn) if hasattr(node, "_module") else None
            if top is not None:
                return self.read(top, fn, None, depth + 1, stack)
            return {self.hole("global:" + node.id)}
        out: set = set()
        for d in sorted(defs, key=lambda d: (d.lineno, d.name, d.kind, d.index or 0)):
            out |= self._def(d, fn, env, depth, stack)
        return self._cap(out)

    def _def(self, d, fn: FuncInfo, env, depth: int, stack: tuple) -> set:
        key = ("def", id(d.node), d.name, d.index)
        if key in stack or depth > self.MAX_DEPTH:
            return {self.hole("cyclic")}
        stack2 = (*stack, key)
        ev = lambda n: self.read(n, fn, env, depth + 1, stack2)  # noqa: E731
        if d.kind == "param":
            owner = self.tree.func_of(d.node) or fn
            if env is not None and d.name in env and owner.qual == fn.qual:
                return env[d.name]
            if d.name in {"self", "cls"}:
                return {self.hole("param")}
            if self.is_private(owner) and len([s for s in stack if isinstance(s, tuple) and s and s[0] == "param"]) < 3:
                sites = self.callers(owner)
                out: set = set()
                for caller, call in sites:
                    bound = self.bind(owner, call)
                    if bound is None or d.name not in bound:
                        return {self.hole("param")}
                    arg = bound[d.name]
                    passed = any(arg is x for x in [*call.args, *[k.value for k in call.keywords]])
                    out |= self.read(arg, caller if passed else owner, None, depth + 1, (*stack2, ("param", owner.qual, d.name)))
                if sites and out:
                    return self._cap(out)
            return {self.hole("param")}
        if d.kind == "assign" and d.value is not None:
            if d.index is None:
                return ev(d.value)
            elts = self.elements(d.value, fn)
            if elts is not None and d.index < len(elts):
                return ev(elts[d.index])
            return {self.hole("unpacked")}
        if d.kind == "aug" and isinstance(d.node, ast.AugAssign) and isinstance(d.node.op, ast.Add) and isinstance(d.node.target, ast.Name):
            old_defs = self.rd(fn).reaching(d.node.target)
            old: set = set()
            for o in old_defs:
                old |= self._def(o, fn, env, depth + 1, stack2)
            if not old:
                return {self.hole("aug")}
            return self._concat(self._cap(old), ev(d.node.value))
        if d.kind in {"for", "comp"} and d.value is not None:
            elts = self.elements(d.value, fn)
            if elts is None:
                return {self.hole("each:" + _head_name(d.value))}
            out = set()
            for e in elts:
                if d.index is None:
                    out |= ev(e)
                else:
                    sub = self.elements(e, fn)
                    out |= ev(sub[d.index]) if sub is not None and d.index < len(sub) else {self.hole("unpacked")}
            return self._cap(out) if out else {self.hole("empty-sequence")}
        return {self.hole(d.kind)}


def _head_name(node: ast.AST) -> str:
    """A stable label of where a run-time piece comes from: the called function / attribute / global, never a local."""
    while isinstance(node, (ast.Subscript, ast.Starred)):
        node = node.value
    if isinstance(node, ast.Call):
        f = node.func
        return f.attr if isinstance(f, ast.Attribute) else f.id if isinstance(f, ast.Name) else "call"
    if isinstance(node, ast.Attribute):
        return node.attr
    if isinstance(node, ast.Name):
        return "name"
    return type(node).__name__


def _name_reader(tree: Tree) -> "NameReader":
    r = tree.__dict__.get("_name_reader")
    if r is None:
        r = tree.__dict__["_name_reader"] = NameReader(tree)
    return r


def _own_calls(fn: FuncInfo) -> Iterator[ast.Call]:
    """Calls of the function itself, including those inside its lambdas and comprehensions (not nested defs)."""
    todo = list(ast.iter_child_nodes(fn.node))
    while todo:
        node = todo.pop(0)
        if isinstance(node, (ast.FunctionDef, ast.AsyncFunctionDef, ast.ClassDef)):
            continue
        if isinstance(node, ast.Call):
            yield node
        todo[0:0] = list(ast.iter_child_nodes(node))


def _symbol_ctor(tree: Tree, fn: FuncInfo, call: ast.Call, reader: "NameReader") -> tuple[str, list[ast.keyword]] | None:
    """(constructor, keywords bound in advance) if ``call`` constructs a symbol: ``sp.Symbol(...)`` itself, a local
    alias of it (``make = sp.Symbol``) or a ``functools.partial(sp.Symbol, real=True)`` bound to a local."""
    scope = tree.func_of(call) or fn
    callee = tree.callee(call, scope)
    if callee in SYMBOL_CTORS:
        return callee, []
    f = call.func
    if isinstance(f, ast.Name):
        defs = reader.rd(fn).reaching(f)
        if len(defs) == 1:
            d = next(iter(defs))
            v = d.value if d.kind == "assign" and d.index is None else None
            if isinstance(v, (ast.Name, ast.Attribute)) and tree.resolve(v._module, v, scope) in SYMBOL_CTORS:  # type: ignore[attr-defined]
                return tree.resolve(v._module, v, scope), []  # type: ignore[attr-defined]
            if isinstance(v, ast.Call) and tree.callee(v, scope) in {"functools.partial", "partial"} and v.args and len(v.args) == 1:
                inner = tree.resolve(v._module, v.args[0], scope)  # type: ignore[attr-defined]
                if inner in SYMBOL_CTORS:
                    return inner, list(v.keywords)
    return None


_NOT_ASSUMPTIONS = {"shape", "cls", "seq", "name", "names", "label", "commutative_placeholder"}


def _read_assumptions(tree: Tree, fn: FuncInfo, keywords: list[ast.keyword], reader: "NameReader") -> tuple[dict[str, str], list[str]]:
    """({assumption: value text}, [what could not be read]): ``**kw`` is followed to a dict display / ``dict(...)``
    (directly, through a local bound once, or a module-level constant)."""
    out: dict[str, str] = {}
    unread: list[str] = []

    def value_text(v: ast.AST) -> str:
        if isinstance(v, ast.Name):
            defs = reader.rd(fn).reaching(v)
            if len(defs) == 1:
                d = next(iter(defs))
                if d.kind == "assign" and d.index is None and isinstance(d.value, ast.Constant):
                    return unparse(d.value)
            if defs or v.id not in {"True", "False", "None"}:
                unread.append(f"assumption value `{unparse(v)[:30]}` is not a constant")
        elif not isinstance(v, ast.Constant):
            unread.append(f"assumption value `{unparse(v)[:30]}` is not a constant")
        return unparse(v)

    def mapping(v: ast.AST, depth: int = 0) -> list[tuple[str, ast.AST]] | None:
        if depth > 4:
            return None
        if isinstance(v, ast.Dict):
            if all(isinstance(k, ast.Constant) and isinstance(k.value, str) for k in v.keys):
                return [(k.value, x) for k, x in zip(v.keys, v.values)]  # type: ignore[union-attr]
            return None
        if isinstance(v, ast.Call) and isinstance(v.func, ast.Name) and v.func.id == "dict" and not v.args and all(k.arg for k in v.keywords):
            return [(k.arg, k.value) for k in v.keywords]  # type: ignore[misc]
        if isinstance(v, ast.Name):
            defs = reader.rd(fn).reaching(v)
            if len(defs) == 1:
                d = next(iter(defs))
                if d.kind == "assign" and d.index is None and d.value is not None:
                    return mapping(d.value, depth + 1)
                return None
            if defs:
                return None
        if isinstance(v, (ast.Name, ast.Attribute)) and hasattr(v, "_module"):
            top = reader._toplevel(v, fn)
            if top is not None:
                return mapping(top, depth + 1)
        return None

    for k in keywords:
        if k.arg is None:
            items = mapping(k.value)
            if items is None:
                unread.append(f"`**{unparse(k.value)[:30]}` is not a mapping that is known statically")
                continue
            for name, v in items:
                if name not in _NOT_ASSUMPTIONS:
                    out[name] = value_text(v)
        elif k.arg not in _NOT_ASSUMPTIONS:
            out[k.arg] = value_text(k.value)
    return out, unread


def _split_names(alt: tuple) -> list[tuple]:
    """The names of one ``sp.symbols`` specification: split at commas / whitespace inside the literal parts."""
    names: list[list] = [[]]
    for p in alt:
        if isinstance(p, str):
            pieces = re.split(r"[,\s]+", p)
            names[-1].append(pieces[0])
            for piece in pieces[1:]:
                names.append([piece])
        else:
            names[-1].append(p)
    return [NameReader._norm(n) for n in names if NameReader._norm(n)]


def symbol_sites(tree: Tree, module_prefixes: Iterable[str]) -> list[dict]:
    """Every symbol construction (``sp.Symbol/symbols/IndexedBase/Dummy``, also through a local alias or a
    ``functools.partial``) in the given modules: function, kind, name skeleton, assumptions.

    The name is READ with ``NameReader`` (f-string / concatenation / ``format`` / ``join`` / ``%``, temporaries,
    conditional names, loops over literal tables, parameters of private helpers followed to their callers); one
    entry per alternative name.  ``skeleton`` is None if the whole name is only known at run time; ``holes`` lists
    where the run-time pieces of the name come from (``call:<function>``, ``param``, ...); ``unread`` lists what
    could not be read of the assumptions (``star_kwargs``: an unresolved ``**kw``)."""
    from .terms import expand_symbols

    reader = _name_reader(tree)
    out = []
    prefixes = tuple(module_prefixes)
    for q, fn in sorted(tree.funcs.items()):
        if not q.startswith(prefixes):
            continue
        for call in _own_calls(fn):
            ctor = _symbol_ctor(tree, fn, call, reader)
            if ctor is None:
                continue
            callee, pre_keywords = ctor
            name_node = call.args[0] if call.args and not isinstance(call.args[0], ast.Starred) else next((k.value for k in call.keywords if k.arg in {"name", "names", "label"}), None)
            if name_node is None:
                continue
            kind = SYMBOL_CTORS[callee]
            alts = sorted(reader.read(name_node, fn), key=repr)
            assumptions, unread = _read_assumptions(tree, fn, [*pre_keywords, *call.keywords], reader)
            star = any(u.startswith("`**") for u in unread)
            entries: list[tuple[str | None, list[str]]] = []
            for alt in alts:
                for name in (_split_names(alt) if kind == "symbols" else [alt]):
                    skel = NameReader.text(name)
                    if kind == "symbols" and skel is not None and "{}" not in skel and ":" in skel:
                        entries += [(n, []) for n in expand_symbols(skel)]
                    else:
                        entries.append((skel, NameReader.provenances(name)))
            seen = set()
            for skel, holes in entries:
                if (skel, tuple(holes)) in seen:
                    continue
                seen.add((skel, tuple(holes)))
                out.append({
                    "fn": q,
                    "node": call,
                    "kind": "Symbol" if kind == "symbols" else kind,
                    "skeleton": skel,
                    "holes": holes,
                    "assumptions": assumptions,
                    "star_kwargs": star,
                    "unread": unread,
                })
    return out


def symbol_ctor_escapes(tree: Tree, module_prefixes: Iterable[str]) -> list[tuple[FuncInfo, ast.AST]]:
    """References to a symbol constructor that are neither called on the spot nor harmless (annotations,
    ``isinstance`` / ``issubclass`` / ``.atoms`` / ``.has`` / ``.find`` arguments, type comparisons, a local alias or
    ``functools.partial`` that ``symbol_sites`` follows): symbols constructed through such a value are not seen."""
    reader = _name_reader(tree)
    prefixes = tuple(module_prefixes)
    out = []
    for q, fn in sorted(tree.funcs.items()):
        if not q.startswith(prefixes):
            continue
        for node in walk_function(fn.node, nested=False):
            if not isinstance(node, (ast.Name, ast.Attribute)) or not isinstance(getattr(node, "ctx", None), ast.Load):
                continue
            par = getattr(node, "_parent", None)
            if isinstance(par, ast.Attribute):
                continue  # a longer path: judged at its top
            if tree.resolve(node._module, node, fn) not in SYMBOL_CTORS:  # type: ignore[attr-defined]
                continue
            if isinstance(par, ast.Call) and par.func is node:
                continue
            benign = False
            child = node
            for a in [par, *([] if par is None else list(_ancestors(par)))]:
                if a is None or a is fn.node:
                    if a is fn.node and (child is fn.node.returns or child is fn.node.args or child in fn.node.decorator_list):
                        benign = True
                    break
                if isinstance(a, ast.arg) or (isinstance(a, ast.AnnAssign) and child is a.annotation) or isinstance(a, ast.Compare):
                    benign = True
                    break
                if isinstance(a, ast.Call) and child is not a.func:
                    f = a.func
                    fname = f.id if isinstance(f, ast.Name) else f.attr if isinstance(f, ast.Attribute) else ""
                    if fname in {"isinstance", "issubclass", "cast", "atoms", "has", "find", "TypeVar"}:
                        benign = True
                    elif fname == "partial" and a.args and a.args[0] is child:
                        # followed by symbol_sites when it is bound to a local that is called
                        p2 = getattr(a, "_parent", None)
                        benign = isinstance(p2, ast.Assign) and len(p2.targets) == 1 and isinstance(p2.targets[0], ast.Name)
                    break
                if isinstance(a, ast.Assign) and child is a.value and len(a.targets) == 1 and isinstance(a.targets[0], ast.Name):
                    benign = True  # local alias: followed by symbol_sites
                    break
                if isinstance(a, ast.stmt):
                    break
                child = a
            if not benign:
                out.append((fn, node))
    return out


def _ancestors(node: ast.AST) -> Iterator[ast.AST]:
    p = getattr(node, "_parent", None)
    while p is not None:
        yield p
        p = getattr(p, "_parent", None)


# --------------------------------------------------------------------------- R-PREC


def _template(js: ast.JoinedStr) -> tuple[str, list[ast.AST]]:
    """Template text with ``\\x00<i>\\x01`` marks for the placeholders."""
    parts, holes = [], []
    for v in js.values:
        if isinstance(v, ast.Constant):
            parts.append(str(v.value))
        else:
            parts.append(f"\x00{len(holes)}\x01")
            holes.append(v.value)
    return "".join(parts), holes


def code_templates(fn_node: ast.AST) -> Iterator[tuple[str, list[ast.AST]]]:
    """Every string template of a function, however it is spelt, as (text with ``\\x00<i>\\x01`` marks, placeholders):
    f-strings, ``"..{}..".format(a, b)`` / ``"..{x}..".format(x=a)`` on a literal, ``"..%s.." % (a, b)`` on a literal, and
    ``+`` concatenations of string literals / f-strings with other values (``"-" + x + "**2"``)."""
    import string

    consumed: set[int] = set()

    def flatten_concat(node: ast.AST, parts: list) -> None:
        if isinstance(node, ast.BinOp) and isinstance(node.op, ast.Add):
            flatten_concat(node.left, parts)
            flatten_concat(node.right, parts)
        elif isinstance(node, ast.Constant) and isinstance(node.value, str):
            parts.append(("text", node.value))
        elif isinstance(node, ast.JoinedStr):
            consumed.add(id(node))
            for v in node.values:
                parts.append(("text", str(v.value)) if isinstance(v, ast.Constant) else ("hole", v.value))
        else:
            parts.append(("hole", node))

    def assemble(parts: list) -> tuple[str, list[ast.AST]]:
        text, holes = [], []
        for kind, x in parts:
            if kind == "text":
                text.append(x)
            else:
                text.append(f"\x00{len(holes)}\x01")
                holes.append(x)
        return "".join(text), holes

    nodes = list(walk_function(fn_node, nested=False))
    for node in nodes:  # outermost concatenations first (walk order is top-down)
        if isinstance(node, ast.BinOp) and isinstance(node.op, ast.Add) and id(node) not in consumed:
            parts: list = []
            flatten_concat(node, parts)
            for sub in ast.walk(node):
                if isinstance(sub, ast.BinOp) and isinstance(sub.op, ast.Add):
                    consumed.add(id(sub))
            if any(k == "text" for k, _ in parts) and any(k == "hole" for k, _ in parts):
                yield assemble(parts)
    for node in nodes:
        if isinstance(node, ast.JoinedStr) and id(node) not in consumed:
            yield _template(node)
        elif isinstance(node, ast.Call) and isinstance(node.func, ast.Attribute) and node.func.attr == "format" and isinstance(node.func.value, ast.Constant) and isinstance(node.func.value.value, str):
            if any(isinstance(a, ast.Starred) for a in node.args) or any(k.arg is None for k in node.keywords):
                continue
            parts, auto = [], 0
            try:
                parsed = list(string.Formatter().parse(node.func.value.value))
            except ValueError:
                continue
            ok = True
            for literal, field, _spec, _conv in parsed:
                if literal:
                    parts.append(("text", literal))
                if field is None:
                    continue
                head = field.split(".")[0].split("[")[0]
                if head == "":
                    arg = node.args[auto] if auto < len(node.args) else None
                    auto += 1
                elif head.isdigit():
                    arg = node.args[int(head)] if int(head) < len(node.args) else None
                else:
                    arg = next((k.value for k in node.keywords if k.arg == head), None)
                if arg is None or head != field:
                    ok = False
                    break
                parts.append(("hole", arg))
            if ok:
                yield assemble(parts)
        elif isinstance(node, ast.BinOp) and isinstance(node.op, ast.Mod) and isinstance(node.left, ast.Constant) and isinstance(node.left.value, str):
            operands = list(node.right.elts) if isinstance(node.right, ast.Tuple) else [node.right]
            pieces = re.split(r"(%%|%[-#0 +]*\d*(?:\.\d+)?[sdrfgi])", node.left.value)
            parts, k = [], 0
            for piece in pieces:
                if piece == "%%":
                    parts.append(("text", "%"))
                elif re.fullmatch(r"%[-#0 +]*\d*(?:\.\d+)?[sdrfgi]", piece or ""):
                    if k >= len(operands) or isinstance(operands[k], ast.Starred):
                        parts = []
                        break
                    parts.append(("hole", operands[k]))
                    k += 1
                elif piece:
                    parts.append(("text", piece))
            if parts and k == len(operands):
                yield assemble(parts)


def _top_kind(node: ast.AST) -> str:
    """'atomic' (call / subscript / name of such), 'product' (* / ** at the top), else 'arbitrary'."""
    if isinstance(node, ast.Call):
        # SymPy's elementary functions evaluate automatically: sin(asin(a + b)) IS a + b, cos(acos(x)) is x,
        # sqrt(x**2) may be x - what is printed for such a call can have any top-level operator
        f = node.func
        if isinstance(f, ast.Attribute) and isinstance(f.value, ast.Name) and f.value.id in {"sp", "sympy"} and f.attr[:1].islower():
            return "arbitrary"
        return "atomic"
    if isinstance(node, (ast.Subscript, ast.Constant)):
        return "atomic"
    if isinstance(node, ast.BinOp) and isinstance(node.op, (ast.Mult, ast.Div, ast.Pow)):
        return "product"
    if isinstance(node, ast.UnaryOp):
        return "arbitrary"
    return "arbitrary"


def field_kinds(tree: Tree, cls_qual: str) -> dict[str, str] | None:
    """For a *private* expression class: the syntactic kind of what its constructor sites
    pass for each field ('atomic' / 'product' / 'arbitrary').  None for public classes
    (users may pass anything)."""
    from .exprmodel import expression_classes
    from .inline import Inliner

    classes = expression_classes(tree)
    if cls_qual not in classes or not classes[cls_qual].name.startswith("_"):
        return None
    cls = classes[cls_qual]
    names = [f.name for f in cls.fields]
    kinds: dict[str, str] = {}
    n_sites = 0
    order = {"atomic": 0, "product": 1, "arbitrary": 2}
    for q, fn in tree.funcs.items():
        if not q.startswith("ampform"):
            continue
        for call, callee in tree.calls_in(fn, nested=False):
            if callee != cls_qual:
                continue
            n_sites += 1
            inl = Inliner(fn.node)
            given = dict(zip(names, call.args))
            for k in call.keywords:
                if k.arg:
                    given[k.arg] = k.value
            for name, expr in given.items():
                kind = _top_kind(inl.expr(expr))
                if name not in kinds or order[kind] > order[kinds[name]]:
                    kinds[name] = kind
    if n_sites == 0:
        return None
    return kinds


def interpret_printer(tree: Tree, fn: FuncInfo, holes: list[ast.AST] = ()) -> dict | None:  # type: ignore[assignment]
    """Interpret a printer method (``_numpycode(self, printer)``) on a model instance whose fields print as the marks
    ``<NUL>field<SOH>``, whose unfolding (``self.evaluate()`` / ``self.doit()``) prints as ``<NUL>unfolded<SOH>`` and anything
    else the printer is asked to print as ``<NUL>expr<n><SOH>``.  Returns {"result": what the method returns, "holes":
    {id(expression in ``holes``): the code strings it held}} - loops, helpers, dicts of printed strings, join / format /
    concatenation are all ordinary Python to the interpreter - or None if the method leaves the interpreted subset (the
    caller then knows nothing more than before)."""
    from .exprmodel import expression_classes

    if fn.cls is None or len(fn.params) < 2:
        return None
    ec = expression_classes(tree).get(fn.cls.qual)
    try:
        ex = object_exec(tree)
        names = [f.name for f in ec.fields] if ec is not None else ["arg0", "arg1", "arg2"]
        sympy_names = [f.name for f in ec.sympy_fields] if ec is not None else names
        values = {n: MObj(f"value of {n}", kinds={"expr", "sympy.Expr", "sympy.Basic"}, open=False) for n in names}
        counter = [0]
        unfolded = MObj("self.evaluate()", kinds={"expr"}, open=False)
        unfolded.attrs["doit"] = lambda a, k: unfolded

        def mark(obj) -> str:
            if obj is unfolded:
                return "\x00unfolded\x01"
            for n, v in values.items():
                if obj is v:
                    return f"\x00{n}\x01"
            if isinstance(obj, (int, float)) and not isinstance(obj, bool):
                return repr(obj)
            counter[0] += 1
            return f"\x00expr{counter[0]}\x01"

        inst = ex.Instance("self", fn.cls, {**(values if ec is not None else {}), "args": tuple(values[n] for n in sympy_names), "_args": tuple(values[n] for n in sympy_names),
                                            "evaluate": lambda a, k: unfolded, "doit": lambda a, k: unfolded}, kinds={"expr", fn.cls.qual, fn.cls.name}, open=False)
        imports = MObj("printer.module_imports", {"__getitem__": lambda a, k: set()}, open=False)
        printer = MObj("printer", {"_print": lambda a, k: mark(a[0]), "doprint": lambda a, k: mark(a[0]), "parenthesize": lambda a, k: "(" + mark(a[0]) + ")",
                                   "module_imports": imports, "_module": "numpy", "_settings": {}}, open=True)
        ex.watch = {id(h) for h in holes}
        result = ex.run(fn, [inst, printer])
    except (ModelError, ModelRaise, AnalysisError):
        return None
    except Exception:  # noqa: BLE001 - a gap of the interpreter: nothing learnt
        return None
    return {"result": result, "holes": {k: [x for x in v if isinstance(x, str)] for k, v in ex.watched.items() if v and all(isinstance(x, str) for x in v)}}


def printed_hole_values(tree: Tree, fn: FuncInfo, holes: list[ast.AST]) -> dict[int, list[str]]:
    """The code strings that the placeholder expressions ``holes`` of a printer method hold when it is interpreted on a
    model instance (see ``interpret_printer``); {} if it cannot be interpreted."""
    out = interpret_printer(tree, fn, holes)
    return out["holes"] if out is not None else {}


def code_text_kind(text: str, mark_kind) -> str:
    """'atomic' / 'product' / 'arbitrary' of a piece of generated code in which printed sub-expressions are marks
    ``<NUL>name<SOH>`` (``mark_kind(name)`` tells what such a mark may print): decided by the operators at the top
    level of the text (outside every bracket)."""
    t = text.strip()
    m = re.fullmatch(r"\x00([^\x00\x01]+)\x01", t)
    if m:
        return mark_kind(m.group(1))
    if re.fullmatch(r"[A-Za-z_][\w.]*\(.*\)", t, re.S) and _enclosed_in_parentheses(t[t.index("("):]):
        return "atomic"
    if _enclosed_in_parentheses(t) or (t[:1] == "[" and t[-1:] == "]"):
        return "atomic"
    depth, worst, i = 0, "atomic", 0
    order = {"atomic": 0, "product": 1, "arbitrary": 2}
    while i < len(t):
        ch = t[i]
        if ch in "([{":
            depth += 1
        elif ch in ")]}":
            depth -= 1
        elif depth == 0:
            if ch == "\x00":
                j = t.index("\x01", i)
                k = mark_kind(t[i + 1: j])
                if len(t) > j - i + 1:  # a mark inside a longer text: its own top-level operators count
                    worst = max(worst, k, key=order.__getitem__)
                i = j
            elif ch in "+-" and not (i > 0 and t[i - 1] in "eE" and t[:i - 1][-1:].isdigit()):
                return "arbitrary"
            elif ch in "*/@%":
                worst = max(worst, "product", key=order.__getitem__)
            elif ch in "<>=!&|^~" or t[i: i + 4] in {" if ", " or "} or t[i: i + 5] == " and ":
                return "arbitrary"
        i += 1
    return worst


def printed_class_kind(tree: Tree, cls: ClassInfo, _seen: frozenset = frozenset()) -> str:
    """Kind of the code text an INSTANCE of a repository class prints as: the worst kind over what its own
    ``_numpycode`` returns ('unknown' if it has none the rule can read, or on recursion)."""
    if cls.qual in _seen:
        return "unknown"
    method = tree.lookup_method(cls, "_numpycode")
    if method is None or not method.qual.startswith("ampform"):
        return "unknown"
    value_kind = precedence_hazards(tree, method, _evaluator=True, _seen=_seen | {cls.qual})
    order = {"atomic": 0, "product": 1, "arbitrary": 2, "unknown": 3}
    returns = [r for r in walk_function(method.node) if isinstance(r, ast.Return)]
    if not returns or any(r.value is None for r in returns):
        return "unknown"
    return max((value_kind(r.value) for r in returns), key=order.__getitem__)


def precedence_hazards(tree: Tree, fn: FuncInfo, undecided: list | None = None, fields_of_holes: dict | None = None, _evaluator: bool = False, _seen: frozenset = frozenset()):
    """Placeholders of generated-code templates that sit next to an operator of higher
    precedence than what the printed sub-expression may have at its top level.

    Three-valued: a placeholder is a hazard only if the rule KNOWS what it prints - the printer's text of an
    expression that may be a sum / a product (``printer._print(x)``, an element of ``map(printer._print, self.args)`` /
    of a comprehension / of a helper that returns one, a template string assembled here).  A placeholder whose
    value the rule cannot interpret (a parameter, the result of a call that cannot be inlined ...) is appended to
    ``undecided`` as (hole, reason) - the caller fails closed on it - and is never reported as a hazard."""
    out: list[tuple[ast.AST, str]] = []
    printer = fn.params[1] if len(fn.params) > 1 else "printer"
    rd = RD(fn.node)
    kinds = field_kinds(tree, fn.cls.qual) if fn.cls is not None else None
    fields_by_local: dict[str, str] = {}
    unpack_nodes: set[int] = set()
    ec = None
    if fn.cls is not None:
        from .exprmodel import expression_classes

        ec = expression_classes(tree).get(fn.cls.qual)
        for st, elts, through in self_args_unpackings(fn, tree):
            if through:
                unpack_nodes.add(id(st))  # every target holds the mapped (printed) form of one argument
            if ec is not None:
                for e, f in zip(elts, [x.name for x in ec.sympy_fields]):
                    if isinstance(e, ast.Name):
                        fields_by_local[e.id] = f
    inl = _value_inliner(fn, tree)
    order = {"atomic": 0, "product": 1, "arbitrary": 2, "unknown": 3}

    def is_printer_call(f: ast.AST) -> bool:
        return isinstance(f, ast.Attribute) and isinstance(f.value, ast.Name) and f.value.id == printer

    def element_kind(seq: ast.AST, depth: int) -> str:
        """Kind of the printed text held by ONE element of a sequence of code strings."""
        if depth > 8:
            return "unknown"
        if args_image(seq) is True:
            return "arbitrary"  # map(printer._print, self.args) / [printer._print(a) for a in self.args]
        if isinstance(seq, (ast.List, ast.Tuple)) and seq.elts and not any(isinstance(e, ast.Starred) for e in seq.elts):
            return max((value_kind(e, depth + 1) for e in seq.elts), key=order.__getitem__)
        if isinstance(seq, (ast.ListComp, ast.GeneratorExp)) and len(seq.generators) == 1:
            return value_kind(seq.elt, depth + 1)
        if isinstance(seq, ast.Call) and isinstance(seq.func, ast.Name) and seq.func.id in {"list", "tuple", "sorted", "reversed", "iter"} and len(seq.args) == 1:
            return element_kind(seq.args[0], depth + 1)
        if isinstance(seq, ast.Call) and isinstance(seq.func, ast.Name) and seq.func.id == "map" and len(seq.args) == 2 and is_printer_call(seq.args[0]):
            return "arbitrary"
        if isinstance(seq, ast.Name):
            defs = rd.reaching(seq) if isinstance(seq.ctx, ast.Load) else set()
            kinds_ = [element_kind(d.value, depth + 1) if d.kind == "assign" and d.value is not None and d.index is None else "unknown" for d in defs]
            return max(kinds_, key=order.__getitem__) if kinds_ else "unknown"
        return "unknown"

    def value_kind(node: ast.AST, depth: int = 0) -> str:
        """Kind of the *printed text* this expression denotes ('unknown': the rule cannot tell)."""
        if depth > 8:
            return "unknown"
        if isinstance(node, ast.Call):
            f = node.func
            if is_printer_call(f):
                if f.attr == "parenthesize":
                    return "atomic"
                if (f.attr.startswith("_print") or f.attr == "doprint") and node.args:
                    arg = node.args[0]
                    # self.<field> of a private class: what do the constructor sites pass?
                    if isinstance(arg, ast.Attribute) and isinstance(arg.value, ast.Name) and arg.value.id == "self" and kinds is not None:
                        return kinds.get(arg.attr, "arbitrary")
                    if isinstance(arg, ast.Name) and arg.id in fields_by_local and kinds is not None:
                        defs = rd.reaching(arg)
                        if defs and all(isinstance(d.node, ast.Assign) and any(d.node is st for st, _e, _t in self_args_unpackings(fn, tree)) for d in defs):
                            return kinds.get(fields_by_local[arg.id], "arbitrary")
                    # a freshly constructed instance of a repository class: prints as whatever that class's own printer method returns
                    built = inl.expr(arg) if inl and isinstance(arg, ast.Name) else arg
                    if isinstance(built, ast.Call):
                        target = tree.resolve(fn.module, built.func, fn)
                        if target in tree.classes:
                            k = printed_class_kind(tree, tree.classes[target], _seen)
                            return "arbitrary" if k == "unknown" else k
                    return "arbitrary"
            if isinstance(f, ast.Attribute) and f.attr in {"strip", "lstrip", "rstrip"} and not node.args:
                return value_kind(f.value, depth + 1)
            if isinstance(f, ast.Name) and f.id == "str" and len(node.args) == 1 and isinstance(node.args[0], ast.Constant):
                return "atomic"
            return "unknown"
        if isinstance(node, ast.JoinedStr):
            text, holes = _template(node)
            stripped = text.strip()
            if re.fullmatch(r"[A-Za-z_][\w.]*\(.*\)", stripped, re.S) or _enclosed_in_parentheses(stripped):
                return "atomic"
            if len(holes) == 1 and stripped == "\x000\x01":
                return value_kind(holes[0], depth + 1)
            return "arbitrary"
        if isinstance(node, ast.Constant):
            return "atomic"
        if isinstance(node, ast.IfExp):
            a, b = value_kind(node.body, depth + 1), value_kind(node.orelse, depth + 1)
            return a if order[a] >= order[b] else b
        if isinstance(node, ast.Name):
            defs = rd.reaching(node) if isinstance(node.ctx, ast.Load) else set()
            if not defs:
                return "unknown"
            worst = "atomic"
            for d in defs:
                if isinstance(d.node, ast.Assign) and id(d.node) in unpack_nodes:
                    # a, b = map(printer._print, self.args) / [printer._print(x) for x in self.args] / a helper that returns one
                    k = kinds.get(fields_by_local[node.id], "arbitrary") if node.id in fields_by_local and kinds is not None and d.index is not None else "arbitrary"
                elif d.kind in {"for", "comp"} and d.value is not None and d.index is None:
                    k = element_kind(d.value, depth + 1)  # a loop / comprehension variable: one element of the iterable
                elif d.value is None or d.index is not None or d.kind not in {"assign"}:
                    k = "unknown"
                else:
                    k = value_kind(d.value, depth + 1)
                    if k == "unknown" and inl and isinstance(d.value, ast.Call):
                        try:
                            inlined = inl.expr(d.value)
                        except Exception:  # noqa: BLE001
                            inlined = d.value
                        if not isinstance(inlined, ast.Call) or unparse(inlined) != unparse(d.value):
                            k = value_kind(inlined, depth + 1)
                if order[k] > order[worst]:
                    worst = k
            return worst
        return "unknown"

    if _evaluator:
        return value_kind
    templates = list(code_templates(fn.node))
    traced: dict | None = None
    printed_field: dict[int, str] = {}
    field_names = {x.name for x in ec.fields} if fn.cls is not None and ec is not None else set()

    def mark_kind(name: str) -> str:
        if name in field_names and kinds is not None:
            return kinds.get(name, "arbitrary")
        return "arbitrary"

    for text, holes in templates:
        # only templates that are generated code: heuristically those that reach a return
        for i, hole in enumerate(holes):
            mark = f"\x00{i}\x01"
            if mark not in text:
                continue
            pos = text.index(mark)
            before = text[:pos].rstrip()
            after = text[pos + len(mark):].lstrip()
            hazards = []
            if before.endswith("-") or (before.endswith("+") and False):
                # unary or binary minus: `- a + b` changes meaning
                hazards.append(("minus before", "product"))
            if before.endswith(("*", "/", "%", "@")):
                hazards.append((f"`{before[-2:].strip()}` before", "atomic"))
            if after.startswith(("**",)):
                hazards.append(("`**` after", "atomic"))
            elif after.startswith(("*", "/", "%", "@")):
                hazards.append((f"`{after[0]}` after", "atomic"))
            elif after.startswith(("[", ".")) and not after.startswith("..."):
                hazards.append((f"`{after[0]}` after", "atomic"))
            if not hazards:
                continue
            kind = value_kind(hole)
            if kind == "unknown":
                # what the placeholder holds when the method is interpreted on a model instance (marks for printed fields)
                if traced is None:
                    traced = printed_hole_values(tree, fn, [h for _t, hs in templates for h in hs])
                texts = traced.get(id(hole))
                if texts:
                    kind = max((code_text_kind(x, mark_kind) for x in texts), key=order.__getitem__)
                    marks = [re.fullmatch("\x00([^\x00\x01]+)\x01", x.strip()) for x in texts]
                    if all(marks) and len({m.group(1) for m in marks}) == 1 and marks[0].group(1) in field_names:
                        printed_field[id(hole)] = marks[0].group(1)
            if kind == "unknown":
                if undecided is not None:
                    undecided.append((hole, f"placeholder {{{unparse(hole)}}} next to {hazards[0][0].replace(' before', '').replace(' after', '')}: the rule cannot tell what text it holds"))
                continue
            for what, need in hazards:
                if order[kind] > order[need]:
                    out.append((hole, f"placeholder {{{unparse(hole)}}} has `{what}` in the template but the printed sub-expression may be {'a sum' if kind == 'arbitrary' else 'a product'} (not parenthesised)"))
    if fields_of_holes is not None:
        fields_of_holes.update(printed_field)  # id(placeholder) -> the field whose printed form it holds (where only the interpretation could tell)
    return out


def _enclosed_in_parentheses(text: str) -> bool:
    """``( ... )`` where the first parenthesis closes at the very end."""
    if len(text) < 2 or text[0] != "(" or text[-1] != ")":
        return False
    depth = 0
    for i, ch in enumerate(text):
        if ch == "(":
            depth += 1
        elif ch == ")":
            depth -= 1
            if depth == 0 and i != len(text) - 1:
                return False
    return depth == 0


# --------------------------------------------------------------------------- R-REBUILD
# SymPy operations that reconstruct every visited node as ``node.func(*node.args)``.  An
# @unevaluated class keeps arguments declared with argument(sympify=False) outside ``args``
# (the decorator only carries them through its own _xreplace / _eval_subs / __getnewargs__
# hooks), so such a reconstruction silently falls back to the field's default.
REBUILDERS = {
    "together", "cancel", "factor", "factor_terms", "simplify", "expand", "expand_mul", "expand_complex",
    "expand_func", "expand_trig", "expand_log", "expand_power_base", "expand_power_exp", "apart", "collect",
    "ratsimp", "radsimp", "powsimp", "powdenest", "trigsimp", "nsimplify", "signsimp", "combsimp", "gammasimp",
    "logcombine", "cse", "rewrite", "sqrtdenest", "separatevars", "bottom_up", "use", "nfloat",
}  # fmt: skip
REBUILD_METHODS = REBUILDERS - {"cse", "bottom_up", "use"}


def carrier_classes(tree: Tree, field_names: tuple[str, ...]) -> dict[str, list[str]]:
    """Expression classes with a non-sympified argument among ``field_names``."""
    from .exprmodel import expression_classes

    out = {}
    for q, ec in expression_classes(tree).items():
        names = [f.name for f in ec.non_sympy_fields if f.name in field_names]
        if names:
            out[q] = names
    return out


def rebuild_sites(tree: Tree, module_prefixes: tuple[str, ...], carriers: dict[str, list[str]]) -> tuple[list[dict], dict]:
    """Calls of a REBUILDER whose operand may contain an instance of a carrier class.

    operand "may contain a carrier": its reaching-definition closure contains a call to a repo
    function from which a carrier constructor is reachable in the call graph, or a parameter
    that receives such a value at some call site of the enclosing function (fixpoint)."""
    from .dataflow import RD

    graph = tree.call_graph()
    producers = {q for q in tree.funcs if any(c in tree.reachable(q, graph) for c in carriers)}
    producers |= set(carriers)
    fns = [f for q, f in tree.funcs.items() if q.startswith(module_prefixes) and f.outer is None]
    rds = {f.qual: RD(f.node) for f in fns}

    def find_rd(fn):
        top = fn
        while top.outer is not None:
            top = top.outer
        return rds.get(top.qual)

    tainted_params: set[tuple[str, str]] = set()

    def expr_tainted(fn, rd, expr) -> str | None:
        for n in ast.walk(expr):
            if isinstance(n, ast.Call):
                callee = tree.callee(n, fn)
                if callee in producers:
                    return f"{callee.split('::')[-1]}(...)"
        for d in rd.closure(rd.uses(expr)):
            if d.kind == "param" and (fn.qual, d.name) in tainted_params:
                return f"parameter `{d.name}`"
            v = d.value if isinstance(d.value, ast.AST) else None
            if v is not None:
                for n in ast.walk(v):
                    if isinstance(n, ast.Call) and tree.callee(n, fn) in producers:
                        return f"{tree.callee(n, fn).split('::')[-1]}(...)"
        return None

    all_fns = [f for q, f in tree.funcs.items() if q.startswith(module_prefixes)]
    for _ in range(4):  # propagate taint into parameters through call sites
        grew = False
        for fn in all_fns:
            rd = find_rd(fn)
            if rd is None:
                continue
            for call, callee in tree.calls_in(fn, nested=False):
                tgt = tree.funcs.get(callee) if callee else None
                if tgt is None:
                    continue
                params = tgt.params[1:] if tgt.cls is not None and tgt.params[:1] in (["self"], ["cls"]) else tgt.params
                bound = list(zip(params, call.args)) + [(k.arg, k.value) for k in call.keywords if k.arg]
                for pname, arg in bound:
                    if (tgt.qual, pname) not in tainted_params and expr_tainted(fn, rd, arg):
                        tainted_params.add((tgt.qual, pname))
                        grew = True
        if not grew:
            break

    sites = []
    n_calls = 0
    for fn in all_fns:
        rd = find_rd(fn)
        if rd is None:
            continue
        for node in walk_function(fn.node, nested=False):
            if not isinstance(node, ast.Call):
                continue
            name, operand = None, None
            f = node.func
            if isinstance(f, ast.Attribute) and isinstance(f.value, ast.Name) and f.value.id in {"sp", "sympy"} and f.attr in REBUILDERS and node.args:
                name, operand = f.attr, node.args[0]
            elif isinstance(f, ast.Name) and f.id in REBUILDERS and (tree.callee(node, fn) or "").startswith("sympy") and node.args:
                name, operand = f.id, node.args[0]
            elif isinstance(f, ast.Attribute) and f.attr in REBUILD_METHODS and not (isinstance(f.value, ast.Name) and f.value.id in {"sp", "sympy"}):
                name, operand = f.attr, f.value
            elif isinstance(f, ast.Attribute) and f.attr in {"applyfunc", "replace"} and node.args:
                a0 = node.args[0]
                inner = a0.attr if isinstance(a0, ast.Attribute) else a0.id if isinstance(a0, ast.Name) else None
                if f.attr == "applyfunc" and inner in REBUILDERS:
                    name, operand = f"applyfunc({inner})", f.value
            if name is None:
                continue
            n_calls += 1
            why = expr_tainted(fn, rd, operand)
            sites.append({"fn": fn, "node": node, "name": name, "operand": operand, "carrier_via": why})
    return sites, {"producers": len(producers), "tainted_params": sorted(f"{a}({b})" for a, b in tainted_params), "rebuilder_calls": n_calls}


# --------------------------------------------------------------------------- R-SAMETOPOLOGY
def topology_mismatches(tree: Tree, module_prefixes: tuple[str, ...]) -> tuple[list[dict], int]:
    """Calls `f(T, ..., x, ...)` of a repo function whose first parameter is named `topology`, where
    an argument `x` was computed (reaching-definition closure) from ANOTHER topology value than T.

    State ids, node ids and id sets only mean something relative to the topology they were read
    from; combining ids of one topology with another topology object silently selects the wrong
    (or no) states as soon as a reaction has more than one topology."""
    out: list[dict] = []
    n_calls = 0
    # functions whose result depends on the final-state ids only, which all topologies of one
    # reaction share (one line of reason per exemption)
    topology_independent = {
        "ampform.kinematics.lorentz::create_four_momentum_symbols",  # {i: p_i for i in topology.outgoing_edge_ids}
    }

    def first_param_is_topology(callee: str | None) -> bool:
        f = tree.funcs.get(callee) if callee else None
        if f is None:
            return False
        params = f.params[1:] if f.cls is not None and f.params[:1] in (["self"], ["cls"]) else f.params
        return bool(params) and params[0] == "topology"

    for q, fn in sorted(tree.funcs.items()):
        if not q.startswith(module_prefixes) or fn.outer is not None:
            continue
        rd = RD(fn.node)
        from .inline import Inliner

        alias_inliner = Inliner(fn.node, rd)

        def ident(expr: ast.AST, scope_rd=rd, inl=alias_inliner):
            """Identity of a topology-valued expression: its text with local aliases (`t = topology`) substituted +
            the reaching definitions of the names that remain."""
            try:
                resolved = inl.expr(expr)
            except Exception:  # noqa: BLE001
                resolved = expr
            names = [n for n in ast.walk(expr) if isinstance(n, ast.Name) and isinstance(n.ctx, ast.Load)]
            defs = set()
            for n in names:
                for d in scope_rd.reaching(n):
                    # a pure alias `t = <name or attribute path>` stands for what it names
                    while d.kind == "assign" and d.index is None and isinstance(d.value, ast.Name) and len(scope_rd.reaching(d.value)) == 1:
                        d = next(iter(scope_rd.reaching(d.value)))
                    if not (d.kind == "assign" and d.index is None and isinstance(d.value, (ast.Name, ast.Attribute)) and unparse(d.value) in unparse(resolved)):
                        defs.add(id(d.node))
                    else:
                        defs |= {id(x.node) for nn in ast.walk(d.value) if isinstance(nn, ast.Name) for x in scope_rd.reaching(nn)}
            return (re.sub(r"\s+", "", unparse(resolved)), frozenset(defs))

        for node in walk_function(fn.node, nested=True):
            if not (isinstance(node, ast.Call) and node.args):
                continue
            scope = tree.func_of(node) or fn
            if not first_param_is_topology(tree.callee(node, scope)):
                continue
            n_calls += 1
            t_id = ident(node.args[0])
            for arg in [*node.args[1:], *[k.value for k in node.keywords]]:
                seen_nodes = set()
                exprs = [arg] + [d.value for d in rd.closure(rd.uses(arg)) if isinstance(d.value, ast.AST)]
                for e in exprs:
                    for sub in ast.walk(e):
                        if id(sub) in seen_nodes:
                            continue
                        seen_nodes.add(id(sub))
                        other = None
                        if (isinstance(sub, ast.Call) and sub.args and sub is not node and first_param_is_topology(tree.callee(sub, scope))
                                and tree.callee(sub, scope) not in topology_independent):
                            other = sub.args[0]
                        if other is None:
                            continue
                        o_id = ident(other)
                        if o_id != t_id:
                            out.append({"fn": fn, "call": node, "arg": arg, "topology": node.args[0], "other": other, "via": sub})
    return out, n_calls


# --------------------------------------------------------------------------- R-LITERALID / R-MEMO
def literal_id_comparisons(tree: Tree, modules: tuple[str, ...]) -> tuple[list[dict], int]:
    """Comparisons of a state / edge / node id with an integer literal.  Ids are labels: qrules
    numbers the initial state -1 by default, but the library itself relabels topologies (0 for the
    initial state in the DPD alignment) and users may permute them; the initial / final edges are
    `topology.incoming_edge_ids` / `outgoing_edge_ids`."""
    out = []
    n = 0
    idish = re.compile(r"(state|edge|node)_ids?\b|\b(state|edge|node)_id\b|_edge_ids\b|get_parent_id|get_sibling_state_id")
    for q, fn in sorted(tree.funcs.items()):
        if not q.startswith(modules) or fn.outer is not None:
            continue
        rd = RD(fn.node)
        for node in walk_function(fn.node, nested=True):
            if not (isinstance(node, ast.Compare) and len(node.ops) == 1 and isinstance(node.ops[0], (ast.Eq, ast.NotEq, ast.Is, ast.IsNot, ast.Lt, ast.Gt, ast.LtE, ast.GtE))):
                continue
            sides = [node.left, node.comparators[0]]
            lit = [s for s in sides if (isinstance(s, ast.Constant) and isinstance(s.value, int) and not isinstance(s.value, bool))
                   or (isinstance(s, ast.UnaryOp) and isinstance(s.op, ast.USub) and isinstance(s.operand, ast.Constant) and isinstance(s.operand.value, int))]
            if len(lit) != 1:
                continue
            other = sides[0] if sides[1] is lit[0] else sides[1]
            if isinstance(other, ast.Call) and unparse(other.func) == "len":
                continue
            n += 1
            texts = [unparse(other)] + [unparse(d.value) for d in rd.closure(rd.uses(other)) if isinstance(d.value, ast.AST)]
            loops = [unparse(d.node.iter) for d in rd.closure(rd.uses(other)) if d.kind == "for" and isinstance(d.node, ast.For)]
            if any(idish.search(t) for t in texts + loops) and not any(t.startswith("len(") for t in texts[:1]):
                out.append({"fn": fn, "node": node, "other": other, "literal": unparse(lit[0])})
    return out, n


def memo_invalidation(tree: Tree, cls_qual: str) -> list[dict]:
    """Lazily computed attributes (`if self.A is None: self.A = f(self.B, ...)`) and the methods
    that change an input B without resetting A."""
    cls = tree.classes[cls_qual]
    memos: dict[str, dict] = {}

    def self_attr(n):
        return n.attr if isinstance(n, ast.Attribute) and isinstance(n.value, ast.Name) and n.value.id == "self" else None

    for m in cls.methods.values():
        for node in walk_function(m.node):
            if not isinstance(node, ast.If):
                continue
            t = node.test
            a = None
            if isinstance(t, ast.Compare) and len(t.ops) == 1 and isinstance(t.ops[0], ast.Is) and isinstance(t.comparators[0], ast.Constant) and t.comparators[0].value is None:
                a = self_attr(t.left)
            if a is None:
                continue
            stores = [s for s in ast.walk(node) if isinstance(s, ast.Assign) and any(self_attr(x) == a for x in s.targets)]
            if not stores:
                continue
            deps = {self_attr(n) for b in node.body for n in ast.walk(b) if self_attr(n) and self_attr(n) != a and isinstance(n.ctx, ast.Load)}
            memos[a] = {"method": m, "node": node, "deps": {d for d in deps if d}}
    out = []
    for a, info in memos.items():
        for m in cls.methods.values():
            if m is info["method"]:
                continue
            writes = set()
            for node in walk_function(m.node):
                tgt = None
                if isinstance(node, (ast.Assign, ast.AugAssign, ast.AnnAssign)):
                    for x in (node.targets if isinstance(node, ast.Assign) else [node.target]):
                        base = x
                        while isinstance(base, ast.Subscript):
                            base = base.value
                        if self_attr(base):
                            writes.add(self_attr(base))
                elif isinstance(node, ast.Call) and isinstance(node.func, ast.Attribute) and node.func.attr in {"add", "update", "append", "extend", "remove", "discard", "clear", "pop", "insert", "setdefault"}:
                    if self_attr(node.func.value):
                        writes.add(self_attr(node.func.value))
            touched = writes & info["deps"]
            if not touched or m.name == "__init__":
                continue
            resets = a in writes or any(
                isinstance(c, ast.Call) and isinstance(c.func, ast.Attribute) and isinstance(c.func.value, ast.Name) and c.func.value.id == "self"
                and c.func.attr in cls.methods and any(
                    isinstance(s, ast.Assign) and any(self_attr(x) == a for x in s.targets) for s in ast.walk(cls.methods[c.func.attr].node))
                for c in walk_function(m.node))
            out.append({"memo": a, "writer": m, "touched": sorted(touched), "resets": resets, "computed_in": info["method"]})
    return out


# --------------------------------------------------------------------------- R-SIMULSUBS / R-OWNDOIT
def sequential_subs_sites(tree: Tree, module_prefixes: tuple[str, ...]) -> list[dict]:
    """`expr.subs(<mapping with several pairs>)` without simultaneous=True whose replacement values
    are arbitrary expressions (function parameters, self.args, unfolded arguments): SymPy applies the
    pairs one after the other, so a replacement that contains a later key is substituted again
    ({a: b, b: c} sends a to c).  xreplace / simultaneous=True / Dummy keys are the safe forms."""
    out = []
    for q, fn in sorted(tree.funcs.items()):
        if not q.startswith(module_prefixes) or fn.outer is not None:
            continue
        rd = RD(fn.node)
        for node in walk_function(fn.node, nested=True):
            if not (isinstance(node, ast.Call) and isinstance(node.func, ast.Attribute) and node.func.attr == "subs" and len(node.args) == 1):
                continue
            if any(k.arg == "simultaneous" and isinstance(k.value, ast.Constant) and k.value.value is True for k in node.keywords):
                continue
            arg = node.args[0]
            exprs = [arg] + [d.value for d in rd.closure(rd.uses(arg)) if isinstance(d.value, ast.AST)]
            multi = None
            for e in exprs:
                for sub in ast.walk(e):
                    if isinstance(sub, ast.Call) and unparse(sub.func) in {"zip", "dict"} and sub.args:
                        multi = sub
                    if isinstance(sub, ast.Dict) and len(sub.keys) > 1:
                        multi = sub
                    if isinstance(sub, ast.DictComp):
                        multi = sub
            if multi is None:
                continue
            txt = " ".join(unparse(e) for e in exprs)
            arbitrary = any(k in txt for k in ("self.args", ".doit(", "*args")) or any(
                d.kind == "param" for d in rd.closure(rd.uses(arg)))
            dummy = "Dummy(" in txt
            out.append({"fn": fn, "node": node, "arbitrary": arbitrary and not dummy, "mapping": unparse(multi)[:60]})
    return out


# --------------------------------------------------------------------------- R-STRUCTSUBS


def structural_subs_on_params(tree: Tree, module_prefixes: tuple[str, ...]) -> list[dict]:
    """``expr.subs(p, v)`` / ``expr.subs({p: v})`` / ``expr.xreplace({p: v})`` where ``p`` is a
    parameter of the function (or an argument unpacked from ``self.args``) and ``expr`` was built
    from ``p`` with SymPy operations.  The substitution is structural: it only finds ``p`` where
    it survives auto-simplification literally (``sqrt(q2*d**2)`` becomes ``d*sqrt(q2)`` for a
    positive ``d``), so it is a correct way to evaluate 'expr at p = v' only when ``p`` is an
    atomic symbol.  A site is *safe* when every caller inside the package hands a freshly created
    Symbol/Dummy for that parameter."""
    out = []
    callers: dict[str, list[tuple[FuncInfo, ast.Call]]] = {}
    for q, fn in tree.funcs.items():
        for call, callee in tree.calls_in(fn):
            if callee:
                callers.setdefault(callee, []).append((fn, call))
    for q, fn in sorted(tree.funcs.items()):
        if not q.startswith(module_prefixes):
            continue
        rd = RD(fn.node)
        params = set(fn.params)
        for node in walk_function(fn.node):
            if not (isinstance(node, ast.Call) and isinstance(node.func, ast.Attribute) and node.func.attr in {"subs", "xreplace"} and node.args):
                continue
            keys: list[ast.AST] = []
            if node.func.attr == "subs" and len(node.args) == 2:
                keys = [node.args[0]]
            elif isinstance(node.args[0], ast.Dict):
                keys = [k for k in node.args[0].keys if k is not None]
            for k in keys:
                if not isinstance(k, ast.Name):
                    continue
                defs = list(rd.reaching(k))
                is_param = k.id in params and all(d.kind == "param" for d in defs)
                from_args = any(d.value is not None and "self.args" in unparse(d.value) for d in defs)
                if not (is_param or from_args):
                    continue
                # does the receiver depend on the key?
                recv_names = {n.id for n in ast.walk(node.func.value) if isinstance(n, ast.Name)}
                recv_defs = rd.closure(rd.uses(node.func.value))
                depends = k.id in recv_names or any(
                    d.value is not None and any(isinstance(n, ast.Name) and n.id == k.id for n in ast.walk(d.value)) for d in recv_defs)
                if not depends:
                    continue
                unsafe_callers = []
                if is_param:
                    pos = fn.params.index(k.id)
                    sites = callers.get(q, [])
                    for cfn, call in sites:
                        arg = None
                        off = 1 if fn.cls is not None and fn.params and fn.params[0] in {"self", "cls"} else 0
                        if pos - off < len(call.args) and pos - off >= 0:
                            arg = call.args[pos - off]
                        for kw in call.keywords:
                            if kw.arg == k.id:
                                arg = kw.value
                        if arg is None:
                            continue
                        fresh = False
                        if isinstance(arg, ast.Name):
                            crd = RD(cfn.node)
                            adefs = [d for d in crd.reaching(arg)]
                            fresh = bool(adefs) and all(
                                d.value is not None and isinstance(d.value, ast.Call) and unparse(d.value.func).split(".")[-1] in {"Symbol", "Dummy", "symbols"} for d in adefs)
                        if not fresh:
                            unsafe_callers.append(f"{cfn.qual}: `{unparse(arg)[:40]}`")
                    if sites and not unsafe_callers:
                        continue
                out.append({"fn": fn, "node": node, "key": k.id, "callers": unsafe_callers or ["(an argument of the expression: arbitrary)"]})
    return out


# --------------------------------------------------------------------------- model execution
#
# Rules about small imperative hooks (the substitution / hashing hooks of the decorator) state what
# the hook RETURNS for which arguments.  Instead of matching one spelling of the loop, the hook is
# interpreted - statement by statement, by this file, nothing of the package is imported or run - on
# MODEL objects that the rule constructs (an instance with a few field values, arguments that report
# a replacement or not, a rule that contains some of them ...) and its result is compared with the
# result the specification gives for the same model.  Helper functions of the package are entered,
# so an extracted helper, a comprehension instead of a loop, guard clauses instead of nesting,
# `append` instead of an index store are all the same to the rule.  Anything outside the interpreted
# subset of Python, or any object/callable the rule gave no model for, is a ModelError (fail closed).


class ModelError(AnalysisError):
    """The interpreted function leaves the modelled subset (construct or object without a model)."""


class ModelRaise(Exception):
    """The interpreted code raises an exception (``kind`` = class name)."""

    def __init__(self, kind: str, msg: str = "") -> None:
        super().__init__(f"{kind}: {msg}" if msg else kind)
        self.kind = kind


class MObj:
    """An object of the model world.  ``attrs``: attribute -> value; a Python callable value is a
    method taking (args, kwargs).  ``open`` objects stand for rich objects (SymPy expressions): reading
    an attribute without a model is a ModelError; closed objects raise AttributeError instead.
    Equality and hash are identity."""

    def __init__(self, label: str, attrs: dict | None = None, kinds=(), open: bool = True, truth: bool = True, hashable: bool = True) -> None:  # noqa: A002
        self.label = label
        self.attrs = dict(attrs or {})
        self.kinds = set(kinds)
        self.open = open
        self.truth = truth
        self.hashable = hashable
        self.reads: list[str] = []

    def __repr__(self) -> str:
        return f"<{self.label}>"


class MRef:
    """A module-level name without a model value (an external class, a repo class): compared by name."""

    def __init__(self, name: str) -> None:
        self.name = name

    def __eq__(self, other) -> bool:
        return isinstance(other, MRef) and other.name == self.name

    def __hash__(self) -> int:
        return hash(("MRef", self.name))

    def __repr__(self) -> str:
        return f"<{self.name}>"


class _FuncRef:
    def __init__(self, fn: FuncInfo | None, node: ast.AST | None = None, env: dict | None = None, scope: FuncInfo | None = None) -> None:
        self.fn, self.node, self.env, self.scope = fn, node, env, scope


_BUILTIN_KINDS = {
    dict: {"dict", "collections.abc.Mapping", "collections.abc.MutableMapping", "typing.Mapping", "collections.abc.Iterable", "collections.abc.Collection"},
    list: {"list", "collections.abc.Sequence", "collections.abc.Iterable", "collections.abc.Collection"},
    tuple: {"tuple", "collections.abc.Sequence", "collections.abc.Iterable", "collections.abc.Collection"},
    set: {"set", "collections.abc.Set", "collections.abc.Iterable", "collections.abc.Collection"},
    frozenset: {"frozenset", "collections.abc.Set", "collections.abc.Iterable", "collections.abc.Collection"},
    str: {"str"},
    bool: {"bool", "int"},
    int: {"int"},
    type(None): {"NoneType"},
}
_SIGNAL_BREAK, _SIGNAL_CONTINUE = ("break",), ("continue",)


class ModelExec:
    """Interpreter of a small Python subset over model values (None, bool, int, str, tuple, list, dict,
    set, MObj, MRef).

    ``externals``: resolved dotted name (or bare name) -> Python callable(args, kwargs) modelling an
    external function.  ``intercept(fn, args, kwargs)`` is asked before a function of the package is
    entered and may return ``(True, value)`` to model the call instead."""

    def __init__(self, tree: Tree, externals: dict | None = None, intercept=None, max_depth: int = 8, max_steps: int = 200_000) -> None:
        self.tree = tree
        self.externals = {**self._default_externals(), **(externals or {})}
        self.intercept = intercept
        self.max_depth = max_depth
        self.max_steps = max_steps
        self.steps = 0
        self.entered: list[str] = []  # qualnames of the package functions that were interpreted

    # ------------------------------------------------------------------ model of a few externals
    @staticmethod
    def _default_externals() -> dict:
        def isclass(args, kwargs):
            return isinstance(args[0], MObj) and "class" in args[0].kinds or isinstance(args[0], MRef)

        def is_dataclass(args, kwargs):
            return isinstance(args[0], MObj) and "__dataclass_fields__" in args[0].attrs

        def fields(args, kwargs):
            if isinstance(args[0], MObj) and "__dataclass_fields__" in args[0].attrs:
                return tuple(args[0].attrs["__dataclass_fields__"])
            raise ModelRaise("TypeError", "must be called with a dataclass type or instance")

        def aresame(args, kwargs):
            return args[0] is args[1] or (not isinstance(args[0], MObj) and not isinstance(args[1], MObj) and type(args[0]) is type(args[1]) and args[0] == args[1])

        return {"inspect.isclass": isclass, "dataclasses.is_dataclass": is_dataclass, "dataclasses.fields": fields, "sympy.core.basic._aresame": aresame}

    # ------------------------------------------------------------------ values
    def truth(self, v) -> bool:
        if isinstance(v, MObj):
            if "__bool__" in v.attrs:
                return bool(v.attrs["__bool__"]([], {}))
            if "__len__" in v.attrs:
                return bool(v.attrs["__len__"]([], {}))
            return v.truth
        if isinstance(v, (MRef, _FuncRef)) or callable(v):
            return True
        return bool(v)

    def kinds_of(self, v) -> set:
        if isinstance(v, MObj):
            return v.kinds
        for t, names in _BUILTIN_KINDS.items():
            if type(v) is t:
                return names
        return set()

    def iterate(self, v, node=None) -> list:
        if isinstance(v, (list, tuple)):
            return list(v)
        if isinstance(v, dict):
            return list(v.keys())
        if isinstance(v, (set, frozenset)):
            return sorted(v, key=repr)
        if isinstance(v, str):
            return list(v)
        if isinstance(v, MObj) and "__iter__" in v.attrs:
            return list(v.attrs["__iter__"]([], {}))
        raise ModelError(f"iteration over {v!r} has no model" + (f" (`{unparse(node)[:50]}`)" if node is not None else ""))

    def contains(self, container, item) -> bool:
        if isinstance(container, MObj):
            if "__contains__" in container.attrs:
                return bool(container.attrs["__contains__"]([item], {}))
            raise ModelError(f"`in {container!r}` has no model")
        if isinstance(container, (dict, set, frozenset)):
            if isinstance(item, MObj) and not item.hashable:
                raise ModelRaise("TypeError", f"unhashable {item!r}")
            if isinstance(item, (list, dict, set)):
                raise ModelRaise("TypeError", "unhashable")
            return item in container
        if isinstance(container, (list, tuple)):
            return any(x is item or (not isinstance(x, MObj) and not isinstance(item, MObj) and x == item) for x in container)
        if isinstance(container, str) and isinstance(item, str):
            return item in container
        raise ModelError(f"`in` on {type(container).__name__} has no model")

    def getattr(self, base, name: str, node=None):
        if isinstance(base, MObj):
            base.reads.append(name)
            if name in base.attrs:
                return base.attrs[name]
            if base.open:
                raise ModelError(f"attribute .{name} of {base!r} has no model" + (f" (`{unparse(node)[:60]}`)" if node is not None else ""))
            raise ModelRaise("AttributeError", f"{base!r} has no attribute {name}")
        if isinstance(base, MRef):
            return MRef(f"{base.name}.{name}")
        if isinstance(base, dict) and name in {"get", "items", "keys", "values", "update", "pop", "setdefault", "copy"}:
            return self._dict_method(base, name)
        if isinstance(base, list) and name in {"append", "extend", "insert", "copy", "index", "pop"}:
            return self._list_method(base, name)
        if isinstance(base, (set,)) and name in {"add", "update", "copy"}:
            return {"add": lambda a, k: base.add(a[0]), "update": lambda a, k: base.update(self.iterate(a[0])), "copy": lambda a, k: set(base)}[name]
        if isinstance(base, str) and name == "join":
            return lambda a, k: base.join(str(x) for x in self.iterate(a[0]))
        if isinstance(base, str) and name in {"startswith", "endswith"}:
            return lambda a, k: getattr(base, name)(*a)
        raise ModelError(f"attribute .{name} of a {type(base).__name__} has no model" + (f" (`{unparse(node)[:60]}`)" if node is not None else ""))

    def _hash_check(self, key) -> None:
        if isinstance(key, (list, dict, set)) or (isinstance(key, MObj) and not key.hashable):
            raise ModelRaise("TypeError", f"unhashable {key!r}")

    def _dict_method(self, d: dict, name: str):
        def get(a, k):
            self._hash_check(a[0])
            return d.get(a[0], a[1] if len(a) > 1 else None)

        def update(a, k):
            for src in a:
                d.update(src if isinstance(src, dict) else dict(self.iterate(src)))
            d.update(k)

        def pop(a, k):
            if a[0] in d:
                return d.pop(a[0])
            if len(a) > 1:
                return a[1]
            raise ModelRaise("KeyError", repr(a[0]))

        return {"get": get, "items": lambda a, k: [(x, y) for x, y in d.items()], "keys": lambda a, k: list(d.keys()), "values": lambda a, k: list(d.values()),
                "update": update, "pop": pop, "setdefault": lambda a, k: d.setdefault(a[0], a[1] if len(a) > 1 else None), "copy": lambda a, k: dict(d)}[name]

    def _list_method(self, lst: list, name: str):
        def index(a, k):
            for i, x in enumerate(lst):
                if x is a[0] or (not isinstance(x, MObj) and x == a[0]):
                    return i
            raise ModelRaise("ValueError", "not in list")

        return {"append": lambda a, k: lst.append(a[0]), "extend": lambda a, k: lst.extend(self.iterate(a[0])), "insert": lambda a, k: lst.insert(a[0], a[1]),
                "copy": lambda a, k: list(lst), "index": index, "pop": lambda a, k: lst.pop(*a)}[name]

    # ------------------------------------------------------------------ builtins
    def _builtin(self, name: str):
        it = self.iterate

        def isinstance_(a, k):
            classes = a[1] if isinstance(a[1], tuple) else (a[1],)
            kinds = self.kinds_of(a[0])
            for c in classes:
                cname = c.name if isinstance(c, MRef) else c[1] if isinstance(c, tuple) and c and c[0] == "builtin" else None
                if cname is None:
                    raise ModelError(f"isinstance(..., {c!r}) has no model")
                if cname in kinds or cname.split(".")[-1] in {x.split(".")[-1] for x in kinds} or cname == "object":
                    return True
            return False

        def hasattr_(a, k):
            if isinstance(a[0], MObj):
                a[0].reads.append(a[1])
                if a[1] in a[0].attrs:
                    return True
                if a[0].open and a[1] not in a[0].attrs.get("__lacks__", ()):
                    raise ModelError(f"hasattr({a[0]!r}, {a[1]!r}) has no model")
                return False
            raise ModelError(f"hasattr on {type(a[0]).__name__} has no model")

        def getattr_(a, k):
            try:
                return self.getattr(a[0], a[1])
            except ModelRaise:
                if len(a) > 2:
                    return a[2]
                raise

        def setattr_(a, k):
            if not isinstance(a[0], MObj):
                raise ModelError("setattr on a non-model object")
            a[0].attrs[a[1]] = a[2]

        def hash_(a, k):
            self._hash_check(a[0])
            return 0

        def super_(a, k):
            inst = a[1] if len(a) > 1 else None
            if isinstance(inst, MObj) and "__super__" in inst.attrs:
                return inst.attrs["__super__"]
            raise ModelError("super() has no model here")

        def map_(a, k):
            cols = [it(x) for x in a[1:]]
            return [self.apply(a[0], list(xs), {}) for xs in zip(*cols)]

        def sum_(a, k):
            total = a[1] if len(a) > 1 else 0
            for x in it(a[0]):
                total = total + x
            return total

        table = {
            "bool": lambda a, k: self.truth(a[0]) if a else False,
            "any": lambda a, k: any(self.truth(x) for x in it(a[0])),
            "all": lambda a, k: all(self.truth(x) for x in it(a[0])),
            "list": lambda a, k: list(it(a[0])) if a else [],
            "tuple": lambda a, k: tuple(it(a[0])) if a else (),
            "set": lambda a, k: set(it(a[0])) if a else set(),
            "frozenset": lambda a, k: frozenset(it(a[0])) if a else frozenset(),
            "dict": lambda a, k: {**(dict(a[0]) if a and isinstance(a[0], dict) else dict(it(a[0])) if a else {}), **k},
            "len": lambda a, k: len(it(a[0])),
            "enumerate": lambda a, k: list(enumerate(it(a[0]), *(a[1:]), **k)),
            "zip": lambda a, k: list(zip(*[it(x) for x in a])),
            "range": lambda a, k: list(range(*a)),
            "reversed": lambda a, k: list(reversed(it(a[0]))),
            "isinstance": isinstance_, "hasattr": hasattr_, "getattr": getattr_, "setattr": setattr_, "hash": hash_, "super": super_, "map": map_, "sum": sum_,
            "filter": lambda a, k: [x for x in it(a[1]) if (self.truth(x) if a[0] is None else self.truth(self.apply(a[0], [x], {})))],
            "callable": lambda a, k: callable(a[0]) or isinstance(a[0], _FuncRef) or (isinstance(a[0], MObj) and "__call__" in a[0].attrs),
            "str": lambda a, k: str(a[0]) if a else "",
            "repr": lambda a, k: repr(a[0]),
            "id": lambda a, k: id(a[0]),
            "iter": lambda a, k: list(it(a[0])),
        }
        return table.get(name)

    # ------------------------------------------------------------------ calls
    def apply(self, f, args: list, kwargs: dict, depth: int = 0, node=None):
        if isinstance(f, _FuncRef):
            return self.call_function(f, args, kwargs, depth + 1)
        if isinstance(f, tuple) and f and f[0] == "builtin":
            return self._builtin(f[1])(args, kwargs)
        if isinstance(f, MObj) and "__call__" in f.attrs:
            return f.attrs["__call__"](args, kwargs)
        if isinstance(f, MRef):
            ext = self.externals.get(f.name) or self.externals.get(f.name.split(".")[-1].split("::")[-1])
            if ext is not None:
                return ext(args, kwargs)
            raise ModelError(f"call of `{f.name}` has no model" + (f" (`{unparse(node)[:60]}`)" if node is not None else ""))
        if callable(f):
            return f(args, kwargs)
        raise ModelError(f"call of {f!r} has no model" + (f" (`{unparse(node)[:60]}`)" if node is not None else ""))

    def call_function(self, f, args: list, kwargs: dict | None = None, depth: int = 0):
        """Interpret a function of the package (FuncInfo or internal closure) on model arguments."""
        kwargs = dict(kwargs or {})
        ref = f if isinstance(f, _FuncRef) else _FuncRef(f)
        fn, node = ref.fn, ref.node if ref.node is not None else ref.fn.node
        scope = fn if fn is not None else ref.scope
        if fn is not None and self.intercept is not None:
            handled, value = self.intercept(fn, args, kwargs)
            if handled:
                return value
        if depth > self.max_depth:
            raise ModelError(f"call depth exceeded at {fn.qual if fn else '<closure>'}")
        if fn is not None:
            self.entered.append(fn.qual)
        env = dict(ref.env or {})
        env.update(self._bind(node, args, kwargs, scope))
        sig = self.block(node.body, env, scope, depth)
        if sig is not None and sig[0] == "return":
            return sig[1]
        return None

    def _bind(self, node, args: list, kwargs: dict, scope) -> dict:
        a = node.args
        pos = [*a.posonlyargs, *a.args]
        env: dict = {}
        if len(args) > len(pos) and a.vararg is None:
            raise ModelRaise("TypeError", f"{getattr(node, 'name', '<lambda>')}() takes {len(pos)} positional arguments but {len(args)} were given")
        for p, v in zip(pos, args):
            env[p.arg] = v
        if a.vararg is not None:
            env[a.vararg.arg] = tuple(args[len(pos):])
        names = {p.arg for p in [*a.args, *a.kwonlyargs]}
        extra = {}
        for k, v in kwargs.items():
            if k in names:
                if k in env:
                    raise ModelRaise("TypeError", f"multiple values for argument {k}")
                env[k] = v
            elif a.kwarg is not None:
                extra[k] = v
            else:
                raise ModelRaise("TypeError", f"unexpected keyword argument {k}")
        if a.kwarg is not None:
            env[a.kwarg.arg] = extra
        defaults = dict(zip([p.arg for p in pos][len(pos) - len(a.defaults):], a.defaults))
        for p, d in zip(a.kwonlyargs, a.kw_defaults):
            if d is not None:
                defaults[p.arg] = d
        for p in [*pos, *a.kwonlyargs]:
            if p.arg not in env:
                if p.arg not in defaults:
                    raise ModelRaise("TypeError", f"missing argument {p.arg}")
                env[p.arg] = self.ev(defaults[p.arg], {}, scope, 0)
        return env

    # ------------------------------------------------------------------ statements
    def block(self, body: list, env: dict, fn, depth: int):
        for st in body:
            sig = self.stmt(st, env, fn, depth)
            if sig is not None:
                return sig
        return None

    def stmt(self, st: ast.stmt, env: dict, fn, depth: int):  # noqa: C901, PLR0911, PLR0912
        self.steps += 1
        if self.steps > self.max_steps:
            raise ModelError("step budget of the model execution exhausted")
        if isinstance(st, ast.Expr):
            self.ev(st.value, env, fn, depth)
            return None
        if isinstance(st, ast.Assign):
            v = self.ev(st.value, env, fn, depth)
            for t in st.targets:
                self.assign(t, v, env, fn, depth)
            return None
        if isinstance(st, ast.AnnAssign):
            if st.value is not None:
                self.assign(st.target, self.ev(st.value, env, fn, depth), env, fn, depth)
            return None
        if isinstance(st, ast.AugAssign):
            load = ast.copy_location(type(st.target)(**{**{f: getattr(st.target, f) for f in st.target._fields}, "ctx": ast.Load()}), st.target)
            cur = self.ev(load, env, fn, depth)
            rhs = self.ev(st.value, env, fn, depth)
            if isinstance(cur, list) and isinstance(st.op, ast.Add):
                cur.extend(self.iterate(rhs))  # in place, like list.__iadd__
                return None
            self.assign(st.target, self.binop(st.op, cur, rhs, st), env, fn, depth)
            return None
        if isinstance(st, ast.If):
            return self.block(st.body if self.truth(self.ev(st.test, env, fn, depth)) else st.orelse, env, fn, depth)
        if isinstance(st, ast.For):
            broke = False
            for item in self.iterate(self.ev(st.iter, env, fn, depth), st.iter):
                self.assign(st.target, item, env, fn, depth)
                sig = self.block(st.body, env, fn, depth)
                if sig is _SIGNAL_BREAK:
                    broke = True
                    break
                if sig is not None and sig is not _SIGNAL_CONTINUE:
                    return sig
            if not broke and st.orelse:
                return self.block(st.orelse, env, fn, depth)
            return None
        if isinstance(st, ast.While):
            while self.truth(self.ev(st.test, env, fn, depth)):
                self.steps += 1
                if self.steps > self.max_steps:
                    raise ModelError("step budget of the model execution exhausted (while loop)")
                sig = self.block(st.body, env, fn, depth)
                if sig is _SIGNAL_BREAK:
                    return None
                if sig is not None and sig is not _SIGNAL_CONTINUE:
                    return sig
            return self.block(st.orelse, env, fn, depth) if st.orelse else None
        if isinstance(st, ast.Return):
            return ("return", self.ev(st.value, env, fn, depth) if st.value is not None else None)
        if isinstance(st, ast.Break):
            return _SIGNAL_BREAK
        if isinstance(st, ast.Continue):
            return _SIGNAL_CONTINUE
        if isinstance(st, (ast.Pass, ast.Import, ast.ImportFrom, ast.Global, ast.Nonlocal)):
            return None
        if isinstance(st, ast.Raise):
            exc = st.exc.func if isinstance(st.exc, ast.Call) else st.exc
            raise ModelRaise(unparse(exc).split(".")[-1] if exc is not None else "Exception", "raised by the interpreted code")
        if isinstance(st, ast.Assert):
            if not self.truth(self.ev(st.test, env, fn, depth)):
                raise ModelRaise("AssertionError")
            return None
        if isinstance(st, ast.FunctionDef):
            env[st.name] = _FuncRef(None, st, env, fn)
            return None
        if isinstance(st, ast.Try):
            try:
                sig = self.block(st.body, env, fn, depth)
                if sig is None and st.orelse:
                    sig = self.block(st.orelse, env, fn, depth)
            except ModelRaise as exc:
                for h in st.handlers:
                    names = [] if h.type is None else [unparse(e).split(".")[-1] for e in (h.type.elts if isinstance(h.type, ast.Tuple) else [h.type])]
                    if h.type is None or exc.kind in names or "Exception" in names or "BaseException" in names:
                        if h.name:
                            env[h.name] = MObj(f"exception {exc.kind}", kinds={exc.kind}, open=True)
                        sig = self.block(h.body, env, fn, depth)
                        break
                else:
                    if st.finalbody:
                        self.block(st.finalbody, env, fn, depth)
                    raise
            if st.finalbody:
                fsig = self.block(st.finalbody, env, fn, depth)
                if fsig is not None:
                    return fsig
            return sig
        raise ModelError(f"statement {type(st).__name__} (`{unparse(st)[:50]}`) is outside the interpreted subset")

    def assign(self, target, v, env: dict, fn, depth: int) -> None:
        if isinstance(target, ast.Name):
            env[target.id] = v
        elif isinstance(target, (ast.Tuple, ast.List)):
            items = self.iterate(v, target)
            star = [i for i, t in enumerate(target.elts) if isinstance(t, ast.Starred)]
            if not star:
                if len(items) != len(target.elts):
                    raise ModelRaise("ValueError", f"unpacking {len(items)} values into {len(target.elts)} targets")
                for t, x in zip(target.elts, items):
                    self.assign(t, x, env, fn, depth)
            else:
                s = star[0]
                after = len(target.elts) - s - 1
                if len(items) < len(target.elts) - 1:
                    raise ModelRaise("ValueError", "not enough values to unpack")
                for t, x in zip(target.elts[:s], items[:s]):
                    self.assign(t, x, env, fn, depth)
                self.assign(target.elts[s].value, list(items[s: len(items) - after]), env, fn, depth)
                for t, x in zip(target.elts[s + 1:], items[len(items) - after:]):
                    self.assign(t, x, env, fn, depth)
        elif isinstance(target, ast.Subscript):
            base = self.ev(target.value, env, fn, depth)
            if isinstance(target.slice, ast.Slice):
                raise ModelError("slice assignment is outside the interpreted subset")
            idx = self.ev(target.slice, env, fn, depth)
            if isinstance(base, list):
                if not isinstance(idx, int) or isinstance(idx, bool) or not -len(base) <= idx < len(base):
                    raise ModelRaise("IndexError", "list assignment index out of range")
                base[idx] = v
            elif isinstance(base, dict):
                self._hash_check(idx)
                base[idx] = v
            elif isinstance(base, MObj) and "__setitem__" in base.attrs:
                base.attrs["__setitem__"]([idx, v], {})
            elif isinstance(base, tuple):
                raise ModelRaise("TypeError", "'tuple' object does not support item assignment")
            else:
                raise ModelError(f"item assignment on {base!r} has no model")
        elif isinstance(target, ast.Attribute):
            base = self.ev(target.value, env, fn, depth)
            if not isinstance(base, MObj):
                raise ModelError(f"attribute assignment on {base!r} has no model")
            base.attrs[target.attr] = v
        else:
            raise ModelError(f"assignment target {type(target).__name__}")

    # ------------------------------------------------------------------ expressions
    def binop(self, op, a, b, node):
        if isinstance(a, (MObj, MRef)) or isinstance(b, (MObj, MRef)):
            hook = {ast.Add: "__add__", ast.Sub: "__sub__", ast.Mult: "__mul__", ast.Div: "__truediv__", ast.Pow: "__pow__", ast.BitOr: "__or__", ast.BitAnd: "__and__",
                    ast.MatMult: "__matmul__"}.get(type(op))
            if isinstance(a, MObj) and hook in a.attrs:
                return a.attrs[hook]([b], {})
            # the reflected method of the right operand (`2 * m`, `sp.I * m` on a model matrix), like Python
            rhook = None if hook is None else "__r" + hook[2:]
            if isinstance(b, MObj) and rhook in b.attrs:
                return b.attrs[rhook]([a], {})
            raise ModelError(f"arithmetic on model objects (`{unparse(node)[:50]}`) has no model")
        try:
            if isinstance(op, ast.Add):
                return a + b
            if isinstance(op, ast.Sub):
                return a - b
            if isinstance(op, ast.Mult):
                return a * b
            if isinstance(op, ast.BitOr):
                return a | b
            if isinstance(op, ast.BitAnd):
                return a & b
            if isinstance(op, ast.BitXor):
                return a ^ b
            if isinstance(op, ast.Mod) and isinstance(a, int):
                return a % b
            if isinstance(op, ast.FloorDiv):
                return a // b
        except TypeError as exc:
            raise ModelRaise("TypeError", str(exc)) from None
        except ZeroDivisionError:
            raise ModelRaise("ZeroDivisionError") from None
        raise ModelError(f"operator {type(op).__name__} is outside the interpreted subset")

    def compare(self, op, a, b, node) -> bool:
        if isinstance(op, ast.Is):
            return a is b or (isinstance(a, MRef) and a == b)
        if isinstance(op, ast.IsNot):
            return not (a is b or (isinstance(a, MRef) and a == b))
        if isinstance(op, ast.In):
            return self.contains(b, a)
        if isinstance(op, ast.NotIn):
            return not self.contains(b, a)
        if isinstance(op, (ast.Eq, ast.NotEq)):
            if isinstance(a, MObj) and "__eq__" in a.attrs:
                same = bool(a.attrs["__eq__"]([b], {}))
            elif isinstance(b, MObj) and "__eq__" in b.attrs:
                same = bool(b.attrs["__eq__"]([a], {}))
            elif isinstance(a, MObj) or isinstance(b, MObj):
                same = a is b
            else:
                same = type(a) is type(b) and a == b or (isinstance(a, (int, bool)) and isinstance(b, (int, bool)) and a == b) or (isinstance(a, (list, tuple)) and type(a) is type(b) and a == b)
            return same if isinstance(op, ast.Eq) else not same
        if isinstance(a, (int, str)) and type(a) is type(b) or (isinstance(a, int) and isinstance(b, int)):
            return {ast.Lt: a < b, ast.LtE: a <= b, ast.Gt: a > b, ast.GtE: a >= b}[type(op)]
        raise ModelError(f"comparison `{unparse(node)[:50]}` has no model")

    def ev(self, node: ast.AST, env: dict, fn, depth: int):  # noqa: C901, PLR0911, PLR0912
        self.steps += 1
        if self.steps > self.max_steps:
            raise ModelError("step budget of the model execution exhausted")
        if isinstance(node, ast.Constant):
            if node.value is Ellipsis:
                raise ModelError("Ellipsis")
            return node.value
        if isinstance(node, ast.Name):
            if node.id in env:
                return env[node.id]
            return self._global(node, fn)
        if isinstance(node, ast.Attribute):
            chain = attr_chain(node)
            if chain and chain.split(".")[0] not in env and fn is not None:
                target = self.tree.resolve(fn.module, node, fn)
                if target:
                    return self._resolved(target)
            return self.getattr(self.ev(node.value, env, fn, depth), node.attr, node)
        if isinstance(node, ast.Call):
            f = self.ev(node.func, env, fn, depth)
            args: list = []
            for a in node.args:
                if isinstance(a, ast.Starred):
                    args.extend(self.iterate(self.ev(a.value, env, fn, depth), a))
                else:
                    args.append(self.ev(a, env, fn, depth))
            kwargs: dict = {}
            for k in node.keywords:
                v = self.ev(k.value, env, fn, depth)
                if k.arg is None:
                    if not isinstance(v, dict):
                        raise ModelError(f"**{unparse(k.value)[:30]} is not a dict in the model")
                    kwargs.update(v)
                else:
                    kwargs[k.arg] = v
            return self.apply(f, args, kwargs, depth, node)
        if isinstance(node, ast.BoolOp):
            v = None
            for e in node.values:
                v = self.ev(e, env, fn, depth)
                if isinstance(node.op, ast.And) and not self.truth(v):
                    return v
                if isinstance(node.op, ast.Or) and self.truth(v):
                    return v
            return v
        if isinstance(node, ast.UnaryOp):
            v = self.ev(node.operand, env, fn, depth)
            if isinstance(node.op, ast.Not):
                return not self.truth(v)
            if isinstance(node.op, ast.USub) and isinstance(v, int):
                return -v
            if isinstance(node.op, ast.USub) and isinstance(v, MObj) and "__neg__" in v.attrs:
                return v.attrs["__neg__"]([], {})
            raise ModelError(f"unary operator in `{unparse(node)[:40]}`")
        if isinstance(node, ast.BinOp):
            return self.binop(node.op, self.ev(node.left, env, fn, depth), self.ev(node.right, env, fn, depth), node)
        if isinstance(node, ast.Compare):
            left = self.ev(node.left, env, fn, depth)
            for op, c in zip(node.ops, node.comparators):
                right = self.ev(c, env, fn, depth)
                if not self.compare(op, left, right, node):
                    return False
                left = right
            return True
        if isinstance(node, ast.IfExp):
            return self.ev(node.body if self.truth(self.ev(node.test, env, fn, depth)) else node.orelse, env, fn, depth)
        if isinstance(node, (ast.Tuple, ast.List, ast.Set)):
            items: list = []
            for e in node.elts:
                if isinstance(e, ast.Starred):
                    items.extend(self.iterate(self.ev(e.value, env, fn, depth), e))
                else:
                    items.append(self.ev(e, env, fn, depth))
            if isinstance(node, ast.Set):
                for x in items:
                    self._hash_check(x)
                return set(items)
            return tuple(items) if isinstance(node, ast.Tuple) else items
        if isinstance(node, ast.Dict):
            out: dict = {}
            for k, v in zip(node.keys, node.values):
                if k is None:
                    out.update(self.ev(v, env, fn, depth))
                else:
                    key = self.ev(k, env, fn, depth)
                    self._hash_check(key)
                    out[key] = self.ev(v, env, fn, depth)
            return out
        if isinstance(node, ast.Subscript):
            base = self.ev(node.value, env, fn, depth)
            if isinstance(node.slice, ast.Slice):
                lo, hi, step = (self.ev(x, env, fn, depth) if x is not None else None for x in (node.slice.lower, node.slice.upper, node.slice.step))
                if isinstance(base, (list, tuple, str)):
                    return base[lo:hi:step]
                raise ModelError("slice of a model object")
            idx = self.ev(node.slice, env, fn, depth)
            if isinstance(base, dict):
                self._hash_check(idx)
                if idx in base:
                    return base[idx]
                raise ModelRaise("KeyError", repr(idx))
            if isinstance(base, (list, tuple, str)):
                if not isinstance(idx, int) or isinstance(idx, bool):
                    raise ModelRaise("TypeError", "indices must be integers")
                if not -len(base) <= idx < len(base):
                    raise ModelRaise("IndexError", "index out of range")
                return base[idx]
            if isinstance(base, MObj) and "__getitem__" in base.attrs:
                return base.attrs["__getitem__"]([idx], {})
            if isinstance(base, MRef):
                return base  # a subscripted type (`tuple[int, ...]`)
            raise ModelError(f"subscript of {base!r} has no model")
        if isinstance(node, (ast.ListComp, ast.GeneratorExp, ast.SetComp, ast.DictComp)):
            # comprehensions are evaluated eagerly: the model callables have no side effects whose order
            # relative to the consumer of a generator could matter (they only record that they were called)
            results: list = []

            def rec(gens, env_):
                if not gens:
                    if isinstance(node, ast.DictComp):
                        results.append((self.ev(node.key, env_, fn, depth), self.ev(node.value, env_, fn, depth)))
                    else:
                        results.append(self.ev(node.elt, env_, fn, depth))
                    return
                g = gens[0]
                for item in self.iterate(self.ev(g.iter, env_, fn, depth), g.iter):
                    env2 = dict(env_)
                    self.assign(g.target, item, env2, fn, depth)
                    if all(self.truth(self.ev(c, env2, fn, depth)) for c in g.ifs):
                        rec(gens[1:], env2)

            rec(list(node.generators), env)
            if isinstance(node, ast.DictComp):
                return dict(results)
            if isinstance(node, ast.SetComp):
                return set(results)
            return results
        if isinstance(node, ast.JoinedStr):
            return "".join(str(v.value) if isinstance(v, ast.Constant) else str(self.ev(v.value, env, fn, depth)) for v in node.values)
        if isinstance(node, ast.NamedExpr):
            v = self.ev(node.value, env, fn, depth)
            self.assign(node.target, v, env, fn, depth)
            return v
        if isinstance(node, ast.Lambda):
            return _FuncRef(None, ast.FunctionDef(name="<lambda>", args=node.args, body=[ast.Return(value=node.body)], decorator_list=[]), env, fn)
        if isinstance(node, ast.Starred):
            raise ModelError("starred expression outside a call or display")
        raise ModelError(f"expression {type(node).__name__} (`{unparse(node)[:50]}`) is outside the interpreted subset")

    def _global(self, node: ast.Name, fn):
        name = node.id
        target = self.tree.resolve(fn.module, node, fn) if fn is not None else None
        if target:
            return self._resolved(target)
        if name in self.externals:
            return self.externals[name]
        if self._builtin(name) is not None or name in {"object", "type", "int", "float"}:
            return ("builtin", name)
        if name in {"True", "False", "None"}:
            return {"True": True, "False": False, "None": None}[name]
        raise ModelError(f"name `{name}` has no model")

    def _resolved(self, target: str):
        if target in self.externals:
            return self.externals[target]
        if target in self.tree.funcs:
            return _FuncRef(self.tree.funcs[target])
        return MRef(target)


# --------------------------------------------------------------------------- object world (classes of the package)
#
# ``object_exec(tree)`` = ``sa/pyexec.PyExec`` (ordinary Python over model worlds) plus what rules about the
# decorator / pickle machinery need on top of it:
#
# * CLASSES OF THE PACKAGE ARE CALLABLE: ``Cls(a, b)`` runs ``__new__`` / ``__init__`` of the class (MRO over the
#   package classes); a class without either that is a dataclass / attrs class / NamedTuple binds its annotated
#   fields (defaults, ``default_factory`` / ``factory``, converters, ``__post_init__``); NamedTuple objects iterate and
#   index, dataclass-like objects compare field-wise.  ``super().__new__(cls, ...)`` / ``object.__new__(cls)`` with
#   an external base allocates the object (a ``str`` / ``int`` / ``tuple`` base keeps the value: ``str.__eq__``,
#   ``str.__hash__``, ``str(obj)`` work on it).  ``==`` / ``!=`` on such objects run the class's ``__eq__`` / ``__ne__``.
#   So a helper object (NamedTuple, attrs class, wrapper class) instead of a tuple is invisible to a rule.
# * a class reference answers ``__name__`` / ``__qualname__`` / ``__module__`` / ``__mro__``, its methods (static
#   methods and class methods through the class) and class-level constants; ``type(None)`` and the other builtin
#   types are classes (``inspect.isclass``), with ``__module__ == "builtins"``.
# * reflection and copying helpers of the standard library: ``inspect.isclass / isfunction / isroutine /
#   signature``, ``dataclasses.astuple / asdict`` (DEEP: nested dataclass instances are destructured, exactly the
#   defect R-SHALLOW is about), ``copy.deepcopy`` (a distinct copy), ``dataclasses.dataclass`` / ``functools.wraps`` /
#   ``functools.cache`` used as calls (identity), ``types.MappingProxyType`` (a copy), ``warnings.warn`` (nothing),
#   ``operator.attrgetter`` (records when ONE name is applied: the bare value, not a tuple).
# * ``notes``: what the models of these helpers observed (("deep", callee, object), ("attrgetter-one-name", name)):
#   positive evidence a rule can quote.
#
# Everything else that has no model stays a ModelError (the rule fails closed).

_OBJECT_EXEC = None
_DATACLASS_DECORATORS = {"dataclasses.dataclass", "attrs.define", "attrs.frozen", "attrs.mutable", "attr.s", "attr.attrs", "attr.define", "attr.frozen", "attr.mutable",
                         "attr.dataclass", "attrs.dataclass"}
_FIELD_CALLS = {"dataclasses.field", "attrs.field", "attr.ib", "attr.attrib", "attr.field"}
_VALUE_BASES = {"str": str, "int": int, "float": float, "tuple": tuple, "frozenset": frozenset, "bytes": bytes}
_NOTHING = object()


def object_exec(tree: Tree, externals: dict | None = None, intercept=None, **kw):
    """An interpreter for model worlds that contain objects of the package's own classes (see above)."""
    global _OBJECT_EXEC  # noqa: PLW0603
    if _OBJECT_EXEC is None:
        _OBJECT_EXEC = _make_object_exec()
    return _OBJECT_EXEC(tree, externals, intercept, **kw)


def _make_object_exec():  # noqa: C901, PLR0915
    from .loader import ClassInfo
    from .pyexec import Instance, PyExec

    class _ObjSuper(MObj):
        """``super()`` inside a method: attribute lookup continues after ``after`` in the MRO of ``cls``."""

        def __init__(self, inst, cls: ClassInfo, after: ClassInfo | None) -> None:
            super().__init__(f"super() of {inst!r}")
            self.inst, self.of, self.after = inst, cls, after

    class ObjExec(PyExec):
        def __init__(self, tree: Tree, externals: dict | None = None, intercept=None, **kw) -> None:
            super().__init__(tree, None, intercept, **kw)
            self.notes: list[tuple] = []
            self.externals.update(self._reflection())
            self.externals.update(externals or {})
            self._body_scopes: dict[str, FuncInfo] = {}
            self.watch: set[int] = set()  # ids of expression nodes whose runtime values a rule wants to see
            self.watched: dict[int, list] = {}

        def ev(self, node: ast.AST, env: dict, fn, depth: int):
            v = super().ev(node, env, fn, depth)
            if self.watch and id(node) in self.watch:
                self.watched.setdefault(id(node), []).append(v)
            return v

        # ------------------------------------------------------------------ classes
        def repo_class(self, v) -> ClassInfo | None:
            if isinstance(v, MRef) and v.name in self.tree.classes:
                return self.tree.classes[v.name]
            return None

        def _ext_bases(self, cls: ClassInfo) -> list[str]:
            return [b for b in self.tree.external_bases(cls) if b not in {"object", "typing.Generic", "typing.Protocol"}]

        def _class_kinds(self, cls: ClassInfo) -> set:
            kinds = set()
            for c in self.tree.mro(cls):
                kinds |= {c.qual, c.name}
            for b in self._ext_bases(cls):
                kinds |= {b, b.split(".")[-1]}
                kinds |= _BUILTIN_KINDS.get(_VALUE_BASES.get(b, object), set())
            return kinds

        def _body_scope(self, cls: ClassInfo) -> FuncInfo:
            """A scope for expressions of the class body (names resolve in the module of the class)."""
            if cls.qual not in self._body_scopes:
                node = ast.FunctionDef(name="<class body>", args=ast.arguments(posonlyargs=[], args=[], kwonlyargs=[], kw_defaults=[], defaults=[]), body=[], decorator_list=[])
                self._body_scopes[cls.qual] = FuncInfo(f"{cls.qual}.<class body>", node, cls.module, cls, None)
            return self._body_scopes[cls.qual]

        def _class_statement(self, cls: ClassInfo, name: str, after: ClassInfo | None = None):
            """(defining class, statement) of the first class of the MRO that binds ``name`` in its body."""
            mro = self.tree.mro(cls)
            if after is not None and after in mro:
                mro = mro[mro.index(after) + 1:]
            for c in mro:
                if name in c.methods:
                    return c, c.methods[name]
                for st in c.node.body:
                    tgt = st.targets[0] if isinstance(st, ast.Assign) and len(st.targets) == 1 else st.target if isinstance(st, ast.AnnAssign) and st.value is not None else None
                    if isinstance(tgt, ast.Name) and tgt.id == name:
                        return c, st
            return None, None

        def _class_attr(self, inst, cls, name: str, after=None):
            if cls is not None:
                c, st = self._class_statement(cls, name, after)
                if c is not None and not isinstance(st, FuncInfo):
                    return self._class_constant(c, st)
            return super()._class_attr(inst, cls, name, after)

        def _class_constant(self, c: ClassInfo, st):
            if isinstance(st.value, ast.Call) and self.tree.resolve(c.module, st.value.func) in _FIELD_CALLS:
                raise ModelRaise("AttributeError", f"{c.name}.{unparse(st)[:30]}: a field without a class-level value")
            return self.ev(st.value, {}, self._body_scope(c), 0)

        def class_getattr(self, ref: MRef, cls: ClassInfo, name: str):
            if name in {"__name__", "__qualname__"}:
                return cls.qual.split("::")[-1] if name == "__qualname__" else cls.name
            if name == "__module__":
                return cls.module.name
            if name == "__mro__":
                return (*[MRef(c.qual) for c in self.tree.mro(cls)], *[MRef(b) for b in self._ext_bases(cls)], ("builtin", "object"))
            if name == "__bases__":
                return tuple(MRef(b) for b in cls.bases) or (("builtin", "object"),)
            c, st = self._class_statement(cls, name)
            if c is None:
                if name == "__dataclass_fields__" and self._dataclass_like(cls):
                    return {f[0]: f for f in self._fields_of(cls)}
                return _NOTHING
            if not isinstance(st, FuncInfo):
                return self._class_constant(c, st)
            decos = {unparse(d.func if isinstance(d, ast.Call) else d).split(".")[-1] for d in st.node.decorator_list}
            if decos & {"property", "cached_property"}:
                raise ModelError(f"property {st.qual} read through the class has no model")
            if "classmethod" in decos:
                return lambda a, k, m=st: self.call_function(m, [ref, *a], k)
            return _FuncRef(st)

        def _dataclass_like(self, cls: ClassInfo) -> str | None:
            for c in self.tree.mro(cls):
                if any(t in _DATACLASS_DECORATORS for t, _ in c.decorators):
                    return "dataclass"
            if any(b in {"typing.NamedTuple", "NamedTuple"} for b in self.tree.external_bases(cls)):
                return "namedtuple"
            return None

        def _fields_of(self, cls: ClassInfo) -> list[tuple]:
            """(attribute name, init name, default node | None, factory node | None, converter node | None, init?, class)"""
            out: dict[str, tuple] = {}
            for c in reversed(self.tree.mro(cls)):
                for st in c.node.body:
                    if not (isinstance(st, ast.AnnAssign) and isinstance(st.target, ast.Name)) or unparse(st.annotation).split("[")[0].split(".")[-1] == "ClassVar":
                        continue
                    default = factory = converter = None
                    init = True
                    if isinstance(st.value, ast.Call) and self.tree.resolve(c.module, st.value.func) in _FIELD_CALLS:
                        for kw in st.value.keywords:
                            if kw.arg == "default":
                                default = kw.value
                            elif kw.arg in {"default_factory", "factory"}:
                                factory = kw.value
                            elif kw.arg == "converter":
                                converter = kw.value
                            elif kw.arg == "init" and isinstance(kw.value, ast.Constant):
                                init = bool(kw.value.value)
                    elif st.value is not None:
                        default = st.value
                    attrs_style = any(t.startswith(("attrs.", "attr.")) for t, _ in c.decorators)
                    out[st.target.id] = (st.target.id, st.target.id.lstrip("_") if attrs_style else st.target.id, default, factory, converter, init, c)
            return list(out.values())

        def allocate(self, ref, value_args: list | None = None):
            cls = self.repo_class(ref)
            if cls is None:
                raise ModelError(f"allocation of an instance of {ref!r} has no model")
            obj = Instance(f"{cls.name} object", cls, kinds=self._class_kinds(cls), open=False)
            bases = [b for b in self._ext_bases(cls) if b in _VALUE_BASES]
            if bases and value_args is not None:
                py = _VALUE_BASES[bases[0]]
                if py in {tuple, frozenset}:
                    value = py(self.iterate(value_args[0])) if value_args else py()
                elif value_args and not isinstance(value_args[0], (MObj, MRef, _FuncRef)):
                    value = value_args[0]
                elif value_args:
                    value = self._str(value_args[0]) if py is str else _NOTHING
                else:
                    value = py()
                if value is _NOTHING:
                    raise ModelError(f"{bases[0]}({value_args[0]!r}) has no model")
                obj.attrs["__value__"] = value
                if py is tuple:
                    obj.attrs.update({"__iter__": lambda a, k, v=value: list(v), "__len__": lambda a, k, v=value: len(v),
                                      "__getitem__": lambda a, k, v=value: self.ev(ast.Subscript(value=ast.Name(id="_o", ctx=ast.Load()), slice=ast.Name(id="_i", ctx=ast.Load()), ctx=ast.Load()), {"_o": v, "_i": a[0]}, None, 0)})
            return obj

        def instantiate(self, ref: MRef, cls: ClassInfo, args: list, kwargs: dict):
            new = self.tree.lookup_method(cls, "__new__")
            if new is not None:
                obj = self.call_function(new, [ref, *args], kwargs)
                if not (isinstance(obj, Instance) and obj.cls is not None and cls in self.tree.mro(obj.cls)):
                    return obj
            else:
                obj = self.allocate(ref, list(args))
            init = self.tree.lookup_method(cls, "__init__")
            if init is not None:
                self.call_function(init, [obj, *args], kwargs)
            elif new is None:
                self._auto_init(cls, obj, args, kwargs)
            return obj

        def _auto_init(self, cls: ClassInfo, obj, args: list, kwargs: dict) -> None:
            style = self._dataclass_like(cls)
            if style is None:
                if (args or kwargs) and "__value__" not in obj.attrs:
                    if self._ext_bases(cls):
                        raise ModelError(f"{cls.name}(...): the constructor of the external base {self._ext_bases(cls)[0]} has no model")
                    raise ModelRaise("TypeError", f"{cls.name}() takes no arguments")
                return
            fields = self._fields_of(cls)
            params = [f for f in fields if f[5]]
            if len(args) > len(params):
                raise ModelRaise("TypeError", f"{cls.name}() takes {len(params)} positional arguments but {len(args)} were given")
            given = {f[1]: v for f, v in zip(params, args)}
            for k_, v in kwargs.items():
                if k_ in given:
                    raise ModelRaise("TypeError", f"{cls.name}() got multiple values for argument {k_}")
                if k_ not in {f[1] for f in params}:
                    raise ModelRaise("TypeError", f"{cls.name}() got an unexpected keyword argument {k_}")
                given[k_] = v
            values = []
            for attr, init_name, default, factory, converter, init, c in fields:
                scope = self._body_scope(c)
                if init and init_name in given:
                    v = given[init_name]
                elif factory is not None:
                    v = self.apply(self.ev(factory, {}, scope, 0), [], {})
                elif default is not None:
                    v = self.ev(default, {}, scope, 0)
                elif init:
                    raise ModelRaise("TypeError", f"{cls.name}() missing required argument {init_name}")
                else:
                    continue
                if converter is not None:
                    v = self.apply(self.ev(converter, {}, scope, 0), [v], {})
                obj.attrs[attr] = v
                values.append(v)
            names = [f[0] for f in fields]
            if style == "namedtuple":
                obj.attrs.update({"__iter__": lambda a, k: [obj.attrs[n] for n in names], "__len__": lambda a, k: len(names), "_fields": tuple(names),
                                  "__getitem__": lambda a, k: [obj.attrs[n] for n in names][a[0]] if isinstance(a[0], int) and -len(names) <= a[0] < len(names) else self._raise("IndexError", "tuple index out of range"),
                                  "_asdict": lambda a, k: {n: obj.attrs[n] for n in names},
                                  "_replace": lambda a, k: self.instantiate(MRef(cls.qual), cls, [], {**{n: obj.attrs[n] for n in names}, **k})})
            if self.tree.lookup_method(cls, "__eq__") is None:
                obj.attrs["__eq__"] = lambda a, k: (isinstance(a[0], Instance) and a[0].cls is obj.cls or (style == "namedtuple" and isinstance(a[0], tuple))) and \
                    len(self.iterate(a[0]) if style == "namedtuple" else names) == len(names) and \
                    all(self.compare(ast.Eq(), obj.attrs[n], y, None) for n, y in zip(names, self.iterate(a[0]) if style == "namedtuple" else [a[0].attrs.get(n, _NOTHING) for n in names]))
            for hook in ("__post_init__", "__attrs_post_init__"):
                m = self.tree.lookup_method(cls, hook)
                if m is not None:
                    self.call_function(m, [obj], {})

        @staticmethod
        def _raise(kind: str, msg: str = ""):
            raise ModelRaise(kind, msg)

        # ------------------------------------------------------------------ calls and attributes
        def apply(self, f, args: list, kwargs: dict, depth: int = 0, node=None):
            cls = self.repo_class(f)
            if cls is not None and f.name not in self.externals:
                return self.instantiate(f, cls, list(args), dict(kwargs))
            if isinstance(f, tuple) and len(f) == 2 and f[0] == "builtin" and f[1] == "object" and not args:
                return MObj("object()", open=False)
            return super().apply(f, args, kwargs, depth, node)

        def assign(self, target, v, env: dict, fn, depth: int) -> None:
            if isinstance(target, ast.Attribute):
                base = self.ev(target.value, env, fn, depth)
                if isinstance(base, _FuncRef):  # `wrapper.__signature__ = ...`: a function is an object with attributes
                    if not hasattr(base, "attrs"):
                        base.attrs = {}
                    base.attrs[target.attr] = v
                    return
            super().assign(target, v, env, fn, depth)

        def getattr(self, base, name: str, node=None):
            if isinstance(base, _ObjSuper):
                return self._super_attr(base, name)
            if isinstance(base, _FuncRef):
                own = getattr(base, "attrs", {})
                if name in own:
                    return own[name]
                fnode = base.node if base.node is not None else base.fn.node
                if name == "__name__":
                    return getattr(fnode, "name", "<lambda>")
                if name == "__qualname__":
                    return base.fn.qual.split("::")[-1] if base.fn is not None else getattr(fnode, "name", "<lambda>")
                if name == "__module__":
                    return base.fn.module.name if base.fn is not None else (base.scope.module.name if base.scope is not None else None)
                if name == "__doc__":
                    return ast.get_docstring(fnode) if isinstance(fnode, ast.FunctionDef) else None
                if name in {"__dict__"}:
                    return dict(own)
                raise ModelRaise("AttributeError", f"function object has no attribute {name}")
            cls = self.repo_class(base)
            if cls is not None:
                found = self.class_getattr(base, cls, name)
                if found is not _NOTHING:
                    return found
                for b in self._ext_bases(cls):
                    if b in _VALUE_BASES:
                        return self._value_base_method(_VALUE_BASES[b], name)
            if isinstance(base, tuple) and len(base) == 2 and base[0] == "builtin" and isinstance(base[1], str):
                return self._builtin_type_attr(base[1], name)
            if isinstance(base, MObj) and "__value__" in base.attrs and name not in base.attrs and getattr(base, "cls", None) is not None \
                    and self._class_statement(base.cls, name)[0] is None and not name.startswith("__"):
                native = self.getattr(base.attrs["__value__"], name, node)  # str / tuple methods of a value subclass
                return native
            if isinstance(base, MObj) and name not in base.attrs and getattr(base, "cls", None) is None and isinstance(base.attrs.get("__class__"), MObj) \
                    and not (getattr(base, "dynamic", None) and name in base.dynamic) and name in base.attrs["__class__"].attrs:
                # an instance of a MODEL class (a class object the rule built): what the instance does not answer is looked up
                # in the class; functions found there are bound to the instance
                base.reads.append(name)
                v = base.attrs["__class__"].attrs[name]
                if isinstance(v, _FuncRef) or (callable(v) and not isinstance(v, MObj)):
                    return lambda a, k, v=v: self.apply(v, [base, *a], k)
                return v
            return super().getattr(base, name, node)

        def _builtin_type_attr(self, tname: str, name: str):
            if name in {"__name__", "__qualname__"}:
                return tname
            if name == "__module__":
                return "builtins"
            if name == "__mro__":
                return (("builtin", tname), ("builtin", "object")) if tname != "object" else (("builtin", "object"),)
            py = {**_VALUE_BASES, "object": object, "dict": dict, "list": list, "set": set, "NoneType": type(None), "bool": bool}.get(tname)
            if py is not None and not hasattr(py, name):
                raise ModelRaise("AttributeError", f"type object '{tname}' has no attribute '{name}'")
            if py is not None:
                return self._value_base_method(py, name)
            raise ModelError(f"attribute {tname}.{name} of a builtin type has no model")

        def _value_of(self, v):
            return v.attrs["__value__"] if isinstance(v, MObj) and "__value__" in v.attrs else v

        def _value_base_method(self, py, name: str):
            """``str.__eq__`` / ``object.__new__`` / ... as unbound functions of the model."""
            val = self._value_of
            if name == "__new__":
                return lambda a, k: self.allocate(a[0], list(a[1:])) if self.repo_class(a[0]) is not None else self._raise_model(f"{py.__name__}.__new__({a[0]!r}) has no model")
            if name == "__init__" or name == "__init_subclass__":
                return lambda a, k: None
            if name == "__setattr__":
                return lambda a, k: a[0].attrs.__setitem__(a[1], a[2]) if isinstance(a[0], MObj) else self._raise_model("object.__setattr__ on a non-model object")
            if name == "__getattribute__":
                return lambda a, k: self.getattr(a[0], a[1])
            if py is object:
                if name == "__eq__":
                    return lambda a, k: a[0] is a[1]
                if name == "__ne__":
                    return lambda a, k: a[0] is not a[1]
                if name == "__hash__":
                    return lambda a, k: id(a[0])
                raise ModelError(f"object.{name} has no model")

            def plain_value(v):
                v = val(v)
                if isinstance(v, (MObj, MRef, _FuncRef)):
                    raise ModelError(f"{py.__name__}.{name} on {v!r} has no model")
                return v

            if name == "__eq__":
                return lambda a, k: not isinstance(val(a[1]), (MObj, MRef, _FuncRef)) and isinstance(val(a[1]), py) and plain_value(a[0]) == val(a[1])
            if name == "__ne__":
                return lambda a, k: not (not isinstance(val(a[1]), (MObj, MRef, _FuncRef)) and isinstance(val(a[1]), py) and plain_value(a[0]) == val(a[1]))
            if name == "__hash__":
                return lambda a, k: hash(plain_value(a[0])) if py is not tuple else 0
            if name in {"__str__", "__repr__"}:
                return lambda a, k: str(plain_value(a[0])) if name == "__str__" else repr(plain_value(a[0]))
            if name in {"__lt__", "__le__", "__gt__", "__ge__"}:
                import operator as _op

                return lambda a, k: getattr(_op, name.strip("_"))(plain_value(a[0]), plain_value(a[1]))
            native = getattr(py, name, None)
            if native is not None and callable(native) and not name.startswith("__"):
                return lambda a, k: self.apply(self.getattr(plain_value(a[0]), name), list(a[1:]), k)
            raise ModelError(f"{py.__name__}.{name} has no model")

        @staticmethod
        def _raise_model(msg: str):
            raise ModelError(msg)

        def _super_attr(self, sup: _ObjSuper, name: str):
            c, st = self._class_statement(sup.of, name, sup.after)
            inst = sup.inst
            if c is not None:
                if not isinstance(st, FuncInfo):
                    return self._class_constant(c, st)
                decos = {unparse(d.func if isinstance(d, ast.Call) else d).split(".")[-1] for d in st.node.decorator_list}
                if name == "__new__" or "staticmethod" in decos:
                    return _FuncRef(st)
                if decos & {"property", "cached_property"}:
                    return self.call_function(st, [inst], {})
                return lambda a, k, m=st: self.call_function(m, [inst, *a], k)
            if isinstance(inst, MObj) and "__super__" in inst.attrs:  # a model the rule supplied for the external base
                return super().getattr(inst.attrs["__super__"], name)
            ext = self._ext_bases(sup.of)
            py = next((_VALUE_BASES[b] for b in ext if b in _VALUE_BASES), None)
            if py is None and ext:
                target = f"{ext[0]}.{name}"
                if target in self.externals:
                    unbound = self.externals[target]
                    return unbound if name == "__new__" else (lambda a, k: unbound([inst, *a], k))
                raise ModelError(f"super().{name}: the method of the external base {ext[0]} has no model")
            unbound = self._value_base_method(py or object, name)
            if name == "__new__":
                return unbound
            return lambda a, k: unbound([inst, *a], k)

        def compare(self, op, a, b, node) -> bool:
            if isinstance(op, (ast.Is, ast.IsNot)) and all(isinstance(x, tuple) and len(x) == 2 and x[0] == "builtin" and isinstance(x[1], str) for x in (a, b)):
                return (a == b) == isinstance(op, ast.Is)  # a builtin type is one object however often the name is evaluated
            if isinstance(op, (ast.Eq, ast.NotEq)) and type(a) is type(b) and isinstance(a, (tuple, list)) and not (len(a) == 2 and a[0] == "builtin") and not (len(b) == 2 and b[0] == "builtin"):
                same = len(a) == len(b) and all(self.compare(ast.Eq(), x, y, node) for x, y in zip(a, b))  # element-wise, with the elements' own __eq__
                return same if isinstance(op, ast.Eq) else not same
            if isinstance(op, (ast.Eq, ast.NotEq)):
                for x, y in ((a, b), (b, a)):
                    cls = getattr(x, "cls", None) if isinstance(x, MObj) else None
                    if cls is None:
                        continue
                    hook = "__ne__" if isinstance(op, ast.NotEq) and self.tree.lookup_method(cls, "__ne__") is not None else "__eq__"
                    m = self.tree.lookup_method(cls, hook) if hook not in x.attrs else None
                    if m is not None:
                        res = self.truth(self.call_function(m, [x, y], {}))
                        return res if (hook == "__ne__") == isinstance(op, ast.NotEq) else not res
                    if hook not in x.attrs and "__value__" in x.attrs:
                        same = not isinstance(self._value_of(y), (MObj, MRef, _FuncRef)) and x.attrs["__value__"] == self._value_of(y)
                        return same if isinstance(op, ast.Eq) else not same
            return super().compare(op, a, b, node)

        def _str(self, v) -> str:
            if isinstance(v, MObj) and "__value__" in v.attrs and "__str__" not in v.attrs and (getattr(v, "cls", None) is None or self.tree.lookup_method(v.cls, "__str__") is None):
                return str(v.attrs["__value__"])
            if isinstance(v, MRef) and v.name in self.tree.classes:
                c = self.tree.classes[v.name]
                return f"<class '{c.module.name}.{c.qual.split('::')[-1]}'>"
            if isinstance(v, tuple) and len(v) == 2 and v[0] == "builtin":
                return f"<class '{v[1]}'>"
            return super()._str(v)

        def iterate(self, v, node=None) -> list:
            if isinstance(v, MObj) and "__iter__" not in v.attrs and "__value__" in v.attrs and isinstance(v.attrs["__value__"], (str, tuple, frozenset)):
                return list(v.attrs["__value__"])
            return super().iterate(v, node)

        def _hash_check(self, key) -> None:
            if isinstance(key, Instance) and key.cls is not None and self.tree.lookup_method(key.cls, "__eq__") is not None:
                c, st = self._class_statement(key.cls, "__hash__")
                eq_c, _ = self._class_statement(key.cls, "__eq__")
                if c is None or (c is not eq_c and eq_c in self.tree.mro(key.cls) and self.tree.mro(key.cls).index(eq_c) < self.tree.mro(key.cls).index(c)):
                    raise ModelRaise("TypeError", f"unhashable type: {key.cls.name} defines __eq__ without __hash__")
            super()._hash_check(key)

        def _resolved(self, target: str):
            if target not in self.externals and target not in self.tree.funcs and target not in self.tree.classes and "::" in target:
                # a module-level constant of the package (`_TYPOS = ["_latex_repr"]`): its value, evaluated once per interpreter
                modname, _, name = target.partition("::")
                mod = self.tree.modules.get(modname)
                st = mod.toplevel.get(name) if mod is not None and "." not in name else None
                value = st.value if isinstance(st, (ast.Assign, ast.AnnAssign)) else None
                if value is not None and (not isinstance(st, ast.Assign) or (len(st.targets) == 1 and isinstance(st.targets[0], ast.Name))):
                    key = ("module constant", target)
                    if key not in self.memo:
                        scope = FuncInfo(f"{modname}::<module>", ast.FunctionDef(name="<module>", args=ast.arguments(posonlyargs=[], args=[], kwonlyargs=[], kw_defaults=[], defaults=[]), body=[], decorator_list=[]), mod, None, None)
                        self.memo[key] = None  # (a constant that refers to itself has no value)
                        self.memo[key] = self.ev(value, {}, scope, 0)
                    return self.memo[key]
            return super()._resolved(target)

        # ------------------------------------------------------------------ builtins
        def _builtin(self, name: str):
            if name == "super":
                return self._super_builtin
            if name == "issubclass":
                return self._issubclass
            if name == "isinstance":
                inner = super()._builtin(name)

                def isinstance_(a, k):
                    classes = a[1] if isinstance(a[1], tuple) and not (len(a[1]) == 2 and a[1][0] == "builtin") else (a[1],)
                    if any(callable(c) and not isinstance(c, (MObj, MRef, _FuncRef)) for c in classes):
                        # a class of the standard library whose CALL has a model (functools.partial): as a class it is its name
                        named = tuple(MRef(next((n for n, f in self.externals.items() if f is c), "?")) if callable(c) and not isinstance(c, (MObj, MRef, _FuncRef)) else c for c in classes)
                        a = [a[0], named if len(named) > 1 else named[0], *a[2:]]
                    if isinstance(a[0], (MRef, _FuncRef)) or (isinstance(a[0], tuple) and len(a[0]) == 2 and a[0][0] == "builtin" and isinstance(a[0][1], str) and a[0][1] in {"str", "int", "NoneType", "object", "dict", "list", "tuple", "float", "bool", "set", "frozenset", "type"}):
                        classes = a[1] if isinstance(a[1], tuple) and not (len(a[1]) == 2 and a[1][0] == "builtin") else (a[1],)
                        names = {c[1] if isinstance(c, tuple) else getattr(c, "name", "") for c in classes}
                        if isinstance(a[0], _FuncRef):
                            return bool(names & {"types.FunctionType", "collections.abc.Callable", "typing.Callable", "object"})
                        return bool(names & {"type", "object"}) and not (isinstance(a[0], MRef) and a[0].name not in self.tree.classes and "type" not in names and "object" not in names)
                    return inner(a, k)

                return isinstance_
            if name == "callable":
                inner = super()._builtin(name)
                return lambda a, k: True if (self.repo_class(a[0]) is not None or (isinstance(a[0], Instance) and a[0].cls is not None and self.tree.lookup_method(a[0].cls, "__call__") is not None)
                                             or (isinstance(a[0], tuple) and len(a[0]) == 2 and a[0][0] == "builtin")) else inner(a, k)
            if name == "hasattr":
                inner = super()._builtin(name)

                def hasattr_(a, k):
                    if not isinstance(a[0], (MObj, MRef, _FuncRef)) and not (isinstance(a[0], tuple) and len(a[0]) == 2 and a[0][0] == "builtin") and not callable(a[0]):
                        return hasattr(a[0], a[1])  # a plain Python value models itself
                    cls = self.repo_class(a[0])
                    if cls is not None:
                        return self.class_getattr(a[0], cls, a[1]) is not _NOTHING
                    if isinstance(a[0], Instance) and a[0].cls is not None and a[1] not in a[0].attrs and self._class_statement(a[0].cls, a[1])[0] is not None:
                        return True
                    return inner(a, k)

                return hasattr_
            if name == "vars":
                return lambda a, k: dict(a[0].attrs) if isinstance(a[0], Instance) and a[0].cls is not None else self._raise_model("vars() of this object has no model")
            return super()._builtin(name)

        def _issubclass(self, a, k):
            classes = a[1] if isinstance(a[1], tuple) and not (len(a[1]) == 2 and a[1][0] == "builtin") else (a[1],)
            sub = a[0]
            if isinstance(sub, MObj) and "class" in sub.kinds:
                names = set(sub.attrs.get("__bases_names__", ())) | {sub.attrs.get("__qual__", "")}
            elif self.repo_class(sub) is not None:
                names = self._class_kinds(self.repo_class(sub))
            elif isinstance(sub, MRef):
                names = {sub.name}
            elif isinstance(sub, tuple) and len(sub) == 2 and sub[0] == "builtin":
                names = {sub[1], "object"}
            else:
                raise ModelRaise("TypeError", "issubclass() arg 1 must be a class")
            for c in classes:
                cname = c.name if isinstance(c, MRef) else c[1] if isinstance(c, tuple) and len(c) == 2 and c[0] == "builtin" else c.attrs.get("__qual__") if isinstance(c, MObj) else None
                if cname is None:
                    raise ModelError(f"issubclass(..., {c!r}) has no model")
                if cname == "object" or cname in names or cname.split(".")[-1].split("::")[-1] in {n.split(".")[-1].split("::")[-1] for n in names}:
                    return True
            return False

        def _super_builtin(self, a, k):
            if a:
                inst = a[1] if len(a) > 1 else None
                if isinstance(inst, MObj) and "__super__" in inst.attrs:
                    return inst.attrs["__super__"]
                cls = self.repo_class(a[0])
                if cls is not None and isinstance(inst, Instance) and inst.cls is not None:
                    return _ObjSuper(inst, inst.cls, cls)
                raise ModelError("super(C, obj) has no model here")
            if not self.frames:
                raise ModelError("super() outside a function of the model")
            frame = self.frames[-1]
            fn = frame.fn if isinstance(frame.fn, FuncInfo) else None
            after = None
            while fn is not None and after is None:
                after, fn = fn.cls, fn.outer
            inst = frame.self_obj
            if after is None:
                raise ModelError("super() outside a method")
            if isinstance(inst, MObj) and getattr(inst, "cls", None) is None:
                if "__super__" in inst.attrs:
                    return inst.attrs["__super__"]
                raise ModelError(f"super() of {inst!r}: the rule gave no model of the base class")
            of = inst.cls if isinstance(inst, MObj) else self.repo_class(inst)
            if of is None:
                raise ModelError(f"super() with {inst!r} as first argument has no model")
            return _ObjSuper(inst, of, after)

        # ------------------------------------------------------------------ reflection / copying helpers of the standard library
        def _reflection(self) -> dict:  # noqa: C901
            it = self.iterate

            def is_class(v) -> bool:
                return (isinstance(v, MObj) and "class" in v.kinds) or isinstance(v, MRef) or (isinstance(v, tuple) and len(v) == 2 and v[0] == "builtin" and isinstance(v[1], str))

            def is_function(v) -> bool:
                return isinstance(v, _FuncRef) or (isinstance(v, MObj) and "function" in v.kinds) or (callable(v) and not isinstance(v, MObj) and hasattr(v, "fn") and hasattr(v, "inst"))

            def model_fields(obj):
                """The field objects of a model dataclass (class object or instance built by the rule), else None."""
                if not isinstance(obj, MObj):
                    return None
                for holder in (obj, obj.attrs.get("__class__")):
                    if isinstance(holder, MObj) and "__dataclass_fields__" in holder.attrs:
                        f = holder.attrs["__dataclass_fields__"]
                        return list(f.values() if isinstance(f, dict) else f)
                return None

            def dataclass_fields(obj):
                f = model_fields(obj)
                if f is not None:
                    return [x.attrs["name"] if isinstance(x, MObj) else x for x in f]
                cls = getattr(obj, "cls", None) if isinstance(obj, MObj) else None
                if cls is not None and self._dataclass_like(cls) == "dataclass":
                    return [f[0] for f in self._fields_of(cls)]
                return None

            def deep(v, callee, top=False):
                names = dataclass_fields(v)
                if names is not None and not (isinstance(v, MObj) and "class" in v.kinds):
                    vals = [deep(self.getattr(v, n), callee) for n in names]
                    return tuple(vals) if callee == "dataclasses.astuple" else dict(zip(names, vals))
                if top:
                    raise ModelRaise("TypeError", f"{callee.split('.')[-1]}() should be called on dataclass instances")
                if isinstance(v, (list, tuple)):
                    return type(v)(deep(x, callee) for x in v)
                if isinstance(v, dict):
                    return {deep(k_, callee): deep(x, callee) for k_, x in v.items()}
                return v  # (copy.deepcopy of a leaf: an equal object - identity is not what the rules ask of leaves)

            def astuple(a, k):
                self.notes.append(("deep", "dataclasses.astuple", a[0]))
                return deep(a[0], "dataclasses.astuple", top=True)

            def asdict(a, k):
                self.notes.append(("deep", "dataclasses.asdict", a[0]))
                return deep(a[0], "dataclasses.asdict", top=True)

            def deepcopy(a, k):
                self.notes.append(("deep", "copy.deepcopy", a[0]))

                def cp(v):
                    if isinstance(v, MObj):
                        c = MObj(f"deep copy of {v.label}", dict(v.attrs), kinds=v.kinds, open=v.open, truth=v.truth, hashable=v.hashable)
                        c.attrs["__copy_of__"] = v
                        return c
                    if isinstance(v, (list, tuple, set, frozenset)):
                        return type(v)(cp(x) for x in v)
                    if isinstance(v, dict):
                        return {k_: cp(x) for k_, x in v.items()}
                    return v

                return cp(a[0])

            def fields(a, k):
                obj = a[0]
                f = model_fields(obj)
                if f is not None:
                    return tuple(f)
                cls = getattr(obj, "cls", None) if isinstance(obj, MObj) else self.repo_class(obj)
                if cls is not None and self._dataclass_like(cls) == "dataclass":
                    return tuple(MObj(f"field {f[0]}", {"name": f[0], "metadata": {}}, kinds={"Field"}, open=False) for f in self._fields_of(cls))
                raise ModelRaise("TypeError", "must be called with a dataclass type or instance")

            def is_dataclass(a, k):
                obj = a[0]
                if model_fields(obj) is not None:
                    return True
                cls = getattr(obj, "cls", None) if isinstance(obj, MObj) else self.repo_class(obj)
                return cls is not None and self._dataclass_like(cls) == "dataclass"

            def dataclass(a, k):
                if a and is_class(a[0]):
                    return a[0]
                return lambda a2, k2: a2[0]

            def identity_decorator(a, k):
                # functools.wraps(f) / functools.cache / lru_cache(maxsize=..): the decorated callable itself
                if len(a) == 1 and not k and (isinstance(a[0], _FuncRef) or callable(a[0])) and not isinstance(a[0], MObj):
                    return a[0]
                return lambda a2, k2: a2[0]

            def wraps(a, k):
                return lambda a2, k2: a2[0]

            def attrgetter(a, k):
                def one(obj, path):
                    for part in path.split("."):
                        obj = self.getattr(obj, part)
                    return obj

                def get(a2, k2):
                    if len(a) == 1:
                        self.notes.append(("attrgetter-one-name", a[0]))
                        return one(a2[0], a[0])
                    return tuple(one(a2[0], p) for p in a)

                if not a:
                    raise ModelRaise("TypeError", "attrgetter expected 1 argument, got 0")
                return get

            def signature(a, k):
                f = a[0]
                kinds = {"posonly": "POSITIONAL_ONLY", "pos": "POSITIONAL_OR_KEYWORD", "var": "VAR_POSITIONAL", "kwonly": "KEYWORD_ONLY", "kw": "VAR_KEYWORD"}
                spec: list[tuple[str, str]] | None = None
                node = None
                drop = 0
                if isinstance(f, _FuncRef) and isinstance(getattr(f, "attrs", {}).get("__signature__"), MObj):
                    return f.attrs["__signature__"]  # set explicitly (functools.wraps / a signature-editing decorator)
                if isinstance(f, MObj) and "__signature__" in f.attrs:
                    spec = list(f.attrs["__signature__"])
                elif isinstance(f, _FuncRef):
                    node = f.node if f.node is not None else f.fn.node
                elif callable(f) and hasattr(f, "fn") and hasattr(f, "inst"):  # a bound method of the model
                    node, drop = f.fn.node, 1
                if spec is None and node is not None:
                    ar = node.args
                    spec = [*[(p.arg, "posonly") for p in ar.posonlyargs], *[(p.arg, "pos") for p in ar.args], *([(ar.vararg.arg, "var")] if ar.vararg else []),
                            *[(p.arg, "kwonly") for p in ar.kwonlyargs], *([(ar.kwarg.arg, "kw")] if ar.kwarg else [])][drop:]
                if spec is None:
                    raise ModelError(f"inspect.signature({f!r}) has no model")
                params = {n: MObj(f"parameter {n}", {"name": n, "kind": MRef(f"inspect.Parameter.{kinds[kd]}"), "default": MRef("inspect.Parameter.empty"), "annotation": MRef("inspect.Parameter.empty")}, open=False)
                          for n, kd in spec}
                return MObj("signature", {"parameters": params, "return_annotation": MRef("inspect.Signature.empty")}, open=False)

            return {
                "inspect.isclass": lambda a, k: is_class(a[0]),
                "inspect.isfunction": lambda a, k: is_function(a[0]),
                "inspect.isroutine": lambda a, k: is_function(a[0]) or (isinstance(a[0], MObj) and bool({"builtin-function", "method"} & a[0].kinds)),
                "inspect.ismethod": lambda a, k: (isinstance(a[0], MObj) and "method" in a[0].kinds) or (callable(a[0]) and hasattr(a[0], "fn") and hasattr(a[0], "inst")),
                "inspect.isbuiltin": lambda a, k: isinstance(a[0], MObj) and "builtin-function" in a[0].kinds,
                "inspect.signature": signature,
                "inspect.Parameter": lambda a, k: MObj(f"parameter {a[0] if a else k.get('name')}", {"name": a[0] if a else k.get("name"), "kind": a[1] if len(a) > 1 else k.get("kind"),
                                                                                                      "default": k.get("default", MRef("inspect.Parameter.empty")), "annotation": k.get("annotation", MRef("inspect.Parameter.empty"))}, open=False),
                "inspect.Signature": lambda a, k: MObj("signature", {"parameters": {p.attrs["name"]: p for p in it(a[0] if a else k.get("parameters", ()))},
                                                                     "return_annotation": k.get("return_annotation", MRef("inspect.Signature.empty"))}, open=False),
                "dataclasses.astuple": astuple, "dataclasses.asdict": asdict, "copy.deepcopy": deepcopy,
                "dataclasses.fields": fields, "dataclasses.is_dataclass": is_dataclass, "dataclasses.dataclass": dataclass,
                "functools.wraps": wraps, "functools.cache": identity_decorator, "functools.lru_cache": identity_decorator,
                "types.MappingProxyType": lambda a, k: dict(a[0]) if isinstance(a[0], dict) else self._raise_model("MappingProxyType of a non-dict"),
                "warnings.warn": lambda a, k: None,
                "operator.attrgetter": attrgetter,
                "typing.dataclass_transform": lambda a, k: (lambda a2, k2: a2[0]), "typing_extensions.dataclass_transform": lambda a, k: (lambda a2, k2: a2[0]),
                "functools.update_wrapper": lambda a, k: a[0],
                "typing.get_type_hints": lambda a, k: dict(self.getattr(a[0], "__annotations__")),
                "sys.version_info": (3, 12, 0, "final", 0),
            }

    ObjExec.Instance = Instance  # type: ignore[attr-defined]
    return ObjExec


# --------------------------------------------------------------------------- R-FALSYZERO
# Optional numeric quantum numbers of qrules' InteractionProperties: None means "not specified", 0 is a value (an
# S-wave has L = 0).  A truth test confuses the two; `is None` / `is not None` is the only test that does not.
OPTIONAL_NUMBERS = {"l_magnitude", "s_magnitude", "l_projection", "s_projection"}


def falsy_zero_hazards(tree: Tree, prefix: str = "ampform") -> tuple[list[tuple[FuncInfo, ast.AST, str]], int]:
    """(hazards, number of reads judged).  A hazard is an expression in a TRUTH context - an operand of ``or`` / ``and``,
    the test of ``if`` / ``while`` / a conditional expression / a comprehension filter, the operand of ``not`` - that IS an
    optional quantum number (an attribute of OPTIONAL_NUMBERS, directly or through single-assignment copies of it).
    Comparisons (``x is None``, ``x == 0``, ``x > 0``) are not truth tests of x."""
    out: list[tuple[FuncInfo, ast.AST, str]] = []
    reads = 0
    for q, fn in sorted(tree.funcs.items()):
        if not q.startswith(prefix) or not any(isinstance(n, ast.Attribute) and n.attr in OPTIONAL_NUMBERS for n in walk_function(fn.node, nested=False)):
            continue
        rd = RD(fn.node)

        def origin(e: ast.AST, depth: int = 0) -> str | None:
            if isinstance(e, ast.Attribute) and e.attr in OPTIONAL_NUMBERS:
                return unparse(e)
            if isinstance(e, ast.NamedExpr):
                return origin(e.value, depth + 1)
            if isinstance(e, ast.Name) and isinstance(e.ctx, ast.Load) and depth < 6:
                defs = rd.reaching(e)
                got = {origin(d.value, depth + 1) if d.kind == "assign" and d.value is not None and d.index is None else None for d in defs}
                if len(got) == 1:
                    return next(iter(got))
            return None

        tested: list[ast.AST] = []
        for n in walk_function(fn.node, nested=False):
            if isinstance(n, ast.Attribute) and n.attr in OPTIONAL_NUMBERS and isinstance(n.ctx, ast.Load):
                reads += 1
            if isinstance(n, ast.BoolOp):
                tested += n.values[:-1]  # the last operand's truth is not looked at by the operator itself
                parent = getattr(n, "_parent", None)
                if isinstance(parent, (ast.If, ast.While, ast.IfExp)) and parent.test is n:
                    tested.append(n.values[-1])
            elif isinstance(n, (ast.If, ast.While, ast.IfExp)):
                tested.append(n.test)
            elif isinstance(n, ast.UnaryOp) and isinstance(n.op, ast.Not):
                tested.append(n.operand)
            elif isinstance(n, ast.comprehension):
                tested += n.ifs
        for t in tested:
            src = origin(t)
            if src is not None:
                out.append((fn, t, src))
    return out, reads


# --------------------------------------------------------------------------- R-MEMOKEY
def memo_key_hazards(tree: Tree, prefix: str) -> tuple[list[tuple[FuncInfo, ast.AST, str, list[str]]], int]:
    """Per-instance memos ``if K not in self.M: self.M[K] = V`` whose key leaves out configuration that V depends on.

    (hazards, number of memos judged).  A hazard: V (followed through ``self.<method>(...)`` calls, three levels) reads a
    PUBLIC instance attribute that ``__init__`` binds (so a user can re-assign it: ``builder.phsp_factor = ...``) and
    that is not an element of the key - after a re-assignment the memo hands out what was computed for the old value.
    Three-valued by construction: only the explicit ``not in`` / store pair with a key that is a tuple display (or a local
    bound once to one) is read; any other memo shape is not judged here."""
    out: list[tuple[FuncInfo, ast.AST, str, list[str]]] = []
    judged = 0
    for q, cls in sorted(tree.classes.items()):
        if not q.startswith(prefix):
            continue
        init = tree.lookup_method(cls, "__init__")
        public: set[str] = set()
        if init is not None:
            for n in walk_function(init.node, nested=False):
                tgts = n.targets if isinstance(n, ast.Assign) else [n.target] if isinstance(n, ast.AnnAssign) and n.value is not None else []
                for t in tgts:
                    if isinstance(t, ast.Attribute) and isinstance(t.value, ast.Name) and t.value.id == "self" and not t.attr.startswith("_"):
                        public.add(t.attr)
        for st in cls.node.body:  # annotated fields of attrs / dataclass classes and property setters
            if isinstance(st, ast.AnnAssign) and isinstance(st.target, ast.Name) and not st.target.id.startswith("_") and any(c.decorators for c in [cls]):
                public.add(st.target.id)
            if isinstance(st, ast.FunctionDef) and any(isinstance(d, ast.Attribute) and d.attr == "setter" for d in st.decorator_list):
                public.add(st.name)
        if not public:
            continue

        def reads(node: ast.AST, fn: FuncInfo, depth: int, seen: set) -> set[str]:
            got: set[str] = set()
            for n in ast.walk(node):
                if isinstance(n, ast.Attribute) and isinstance(n.value, ast.Name) and n.value.id == "self" and isinstance(n.ctx, ast.Load):
                    method = tree.lookup_method(cls, n.attr) or tree.lookup_method(cls, f"_{cls.name.lstrip('_')}{n.attr}")
                    if method is None:
                        got.add(n.attr)
                    elif any(isinstance(d, ast.Name) and d.id in {"property", "cached_property"} or isinstance(d, ast.Attribute) and d.attr in {"cached_property"} for d in method.node.decorator_list):
                        got.add(n.attr)  # the property itself (it has a setter or not) ...
                        if depth < 3 and method.qual not in seen:
                            got |= reads(method.node, method, depth + 1, seen | {method.qual})  # ... and what it reads
                    elif depth < 3 and method.qual not in seen and isinstance(getattr(n, "_parent", None), ast.Call) and n._parent.func is n:
                        got |= reads(method.node, method, depth + 1, seen | {method.qual})
            return got

        for m in cls.methods.values():
            rd = None
            for test in [n for n in walk_function(m.node, nested=False) if isinstance(n, ast.If)]:
                t = test.test
                if isinstance(t, ast.UnaryOp) and isinstance(t.op, ast.Not) and isinstance(t.operand, ast.Compare) and len(t.operand.ops) == 1 and isinstance(t.operand.ops[0], ast.In):
                    t = ast.Compare(left=t.operand.left, ops=[ast.NotIn()], comparators=t.operand.comparators)
                if not (isinstance(t, ast.Compare) and len(t.ops) == 1 and isinstance(t.ops[0], ast.NotIn)):
                    continue
                key_node, memo = t.left, t.comparators[0]
                if not (isinstance(memo, ast.Attribute) and isinstance(memo.value, ast.Name) and memo.value.id == "self"):
                    continue
                stores = [s_ for s_ in test.body if isinstance(s_, ast.Assign) and len(s_.targets) == 1 and isinstance(s_.targets[0], ast.Subscript)
                          and unparse(s_.targets[0].value) == unparse(memo) and unparse(s_.targets[0].slice) == unparse(key_node)]
                if not stores:
                    continue
                key_value = key_node
                if isinstance(key_node, ast.Name):
                    rd = rd or RD(m.node)
                    defs = rd.reaching(key_node)
                    if len(defs) != 1:
                        continue
                    d = next(iter(defs))
                    if d.kind != "assign" or d.value is None or d.index is not None:
                        continue
                    key_value = d.value
                if not isinstance(key_value, ast.Tuple):
                    continue
                judged += 1
                in_key = {e.attr for e in ast.walk(key_value) if isinstance(e, ast.Attribute) and isinstance(e.value, ast.Name) and e.value.id == "self"}
                used = reads(stores[0].value, m, 0, {m.qual}) - {memo.attr}
                missing = sorted((used & public) - in_key)
                if missing:
                    out.append((m, stores[0], unparse(memo), missing))
    return out, judged
