"""Reusable rule shapes (DESIGN.md section 2) shared by several properties."""

from __future__ import annotations

import ast
import re
from typing import Iterable, Iterator

from .dataflow import RD, attr_chain
from .exprmodel import ExprClass
from .loader import AnalysisError, FuncInfo, Tree, unparse, walk_function

# --------------------------------------------------------------------------- R-SHALLOW

DEEP_SOURCES = {
    "dataclasses.astuple": "recurses into every field value that is itself a dataclass instance "
    "(every @unevaluated class is a dataclass), turning nested expressions into plain tuples",
    "dataclasses.asdict": "recurses into nested dataclass instances",
    "copy.deepcopy": "copies nested expressions instead of handing them out",
}
FIELDS_FUNCS = {"dataclasses.fields"}


def reach_functions(tree: Tree, start: FuncInfo, depth: int = 3) -> list[tuple[FuncInfo, tuple[str, ...]]]:
    """Repo functions reachable from ``start`` through resolved calls (bounded depth)."""
    out: list[tuple[FuncInfo, tuple[str, ...]]] = [(start, (start.qual,))]
    seen = {start.qual}
    frontier = [(start, (start.qual,))]
    for _ in range(depth):
        nxt = []
        for fn, path in frontier:
            for _call, callee in tree.calls_in(fn):
                if callee and callee in tree.funcs and callee not in seen:
                    seen.add(callee)
                    item = (tree.funcs[callee], (*path, callee))
                    out.append(item)
                    nxt.append(item)
        frontier = nxt
    return out


def external_calls(tree: Tree, fn: FuncInfo) -> Iterator[tuple[ast.Call, str]]:
    for call, callee in tree.calls_in(fn):
        if callee and "::" not in callee:
            yield call, callee


def argument_sources(tree: Tree, fn: FuncInfo, self_name: str = "self") -> list[dict]:
    """How does ``fn`` (a hook taking the instance as first parameter) read the
    instance's arguments?  Returns a list of recognised sources:

    * kind "args"     - ``<inst>.args``
    * kind "fields"   - comprehension/loop over ``dataclasses.fields(<inst>)`` producing
      ``getattr(<inst>, f.name)``; ``filtered`` tells whether an ``if`` restricts it
    * kind "deep"     - a call of a DEEP_SOURCES callable on the instance
    """
    found: list[dict] = []
    inst = fn.params[0] if fn.params else self_name
    for node in walk_function(fn.node):
        if isinstance(node, ast.Attribute) and node.attr in {"args", "_args"}:
            if isinstance(node.value, ast.Name) and node.value.id == inst:
                found.append({"kind": "args", "node": node})
        if isinstance(node, ast.Call):
            callee = tree.callee(node, fn)
            if callee in DEEP_SOURCES:
                found.append({"kind": "deep", "node": node, "callee": callee})
            if callee in {"operator.attrgetter", "operator.itemgetter"} and (any(isinstance(a, ast.Starred) for a in node.args) or len(node.args) == 1):
                # attrgetter(*names)(obj): a tuple for >= 2 names, the bare value for one name
                found.append({"kind": "getter-arity", "node": node, "callee": callee})
        if isinstance(node, (ast.GeneratorExp, ast.ListComp, ast.SetComp)):
            for gen in node.generators:
                if isinstance(gen.iter, ast.Call) and tree.callee(gen.iter, fn) in FIELDS_FUNCS | {
                    "ampform.sympy._decorator::get_sympy_fields"
                }:
                    elt = node.elt
                    getattrs = [
                        c
                        for c in ast.walk(elt)
                        if isinstance(c, ast.Call) and isinstance(c.func, ast.Name) and c.func.id == "getattr"
                    ]
                    if getattrs:
                        filtered = bool(gen.ifs) or tree.callee(gen.iter, fn) not in FIELDS_FUNCS
                        found.append({
                            "kind": "fields",
                            "node": node,
                            "filtered": filtered,
                            "filter": [unparse(i) for i in gen.ifs],
                        })
    return found


# --------------------------------------------------------------------------- R-ARITY


def self_args_unpackings(fn: FuncInfo) -> Iterator[tuple[ast.Assign, list[ast.AST], bool]]:
    """``a, b, c = self.args`` and ``a, b = map(f, self.args)`` inside ``fn``.

    Yields (statement, target elements, through_map)."""
    for node in walk_function(fn.node):
        if not isinstance(node, ast.Assign) or len(node.targets) != 1:
            continue
        tgt = node.targets[0]
        if not isinstance(tgt, (ast.Tuple, ast.List)):
            continue
        val = node.value
        through_map = False
        if isinstance(val, ast.Call) and isinstance(val.func, ast.Name) and val.func.id in {"map", "tuple", "list"}:
            if val.func.id == "map" and len(val.args) == 2:
                val, through_map = val.args[1], True
            elif val.func.id in {"tuple", "list"} and len(val.args) == 1:
                val = val.args[0]
        if isinstance(val, ast.Attribute) and val.attr == "args" and isinstance(val.value, ast.Name) and val.value.id == "self":
            yield node, list(tgt.elts), through_map


def check_arity(cls: ExprClass, elts: list[ast.AST]) -> str | None:
    """None if the unpacking is consistent with the class's SymPy fields."""
    fields = [f.name for f in cls.sympy_fields]
    star = [i for i, e in enumerate(elts) if isinstance(e, ast.Starred)]
    if len(star) > 1:
        return "more than one starred target"
    if not star and len(elts) != len(fields):
        return f"{len(elts)} targets for {len(fields)} SymPy fields {fields}"
    if star and len(elts) - 1 > len(fields):
        return f"at least {len(elts) - 1} targets for {len(fields)} SymPy fields {fields}"
    # a target that carries the name of a field must sit at that field's position
    n = len(elts)
    for i, e in enumerate(elts):
        if isinstance(e, ast.Starred) or not isinstance(e, ast.Name) or e.id == "_":
            continue
        if e.id in fields:
            pos = i if not star or i < star[0] else len(fields) - (n - i)
            if fields.index(e.id) != pos:
                return f"target '{e.id}' at position {pos} but field '{e.id}' is at position {fields.index(e.id)} of {fields}"
    return None


# --------------------------------------------------------------------------- R-PRINT


def printer_methods(tree: Tree, names=("_numpycode", "_pythoncode")) -> list[FuncInfo]:
    out = []
    for q, fn in tree.funcs.items():
        if q.startswith("ampform") and fn.cls is not None and fn.outer is None and fn.name in names:
            out.append(fn)
    return out


def _is_print_call(node: ast.AST, printer: str) -> bool:
    """``printer._print(...)`` / ``printer.doprint(...)`` / ``printer._print_X(...)``."""
    if isinstance(node, ast.Call) and isinstance(node.func, ast.Attribute):
        f = node.func
        if isinstance(f.value, ast.Name) and f.value.id == printer and (f.attr.startswith("_print") or f.attr == "doprint" or f.attr == "parenthesize"):
            return True
    return False


def _is_print_map(node: ast.AST, printer: str) -> bool:
    if isinstance(node, ast.Call) and isinstance(node.func, ast.Name) and node.func.id in {"map"} and node.args:
        f = node.args[0]
        return isinstance(f, ast.Attribute) and isinstance(f.value, ast.Name) and f.value.id == printer and f.attr.startswith("_print")
    return False


class PrintTaint:
    """Classifies every value interpolated into generated code inside a printer method.

    A value is *printed* when it derives only from printer calls, string/number literals,
    other printed values, string methods / joins / f-strings of printed values, or
    class-level literal constants reached as ``self.<NAME>``.  Anything that derives from
    ``self.args`` / ``self.<field>`` without passing the printer is *raw*.
    """

    def __init__(self, tree: Tree, fn: FuncInfo, class_literals: set[str], safe_methods: set[str]):
        self.tree = tree
        self.fn = fn
        self.printer = fn.params[1] if len(fn.params) > 1 else "printer"
        self.rd = RD(fn.node)
        self.class_literals = class_literals
        self.safe_methods = safe_methods
        self._memo: dict[int, tuple[bool, str]] = {}

    def classify(self, node: ast.AST, depth: int = 0) -> tuple[bool, str]:
        """(is_printed, reason-if-not)."""
        if depth > 40:
            return False, "too deep"
        p = self.printer
        if isinstance(node, ast.Constant):
            return True, ""
        if isinstance(node, ast.JoinedStr):
            for v in node.values:
                if isinstance(v, ast.FormattedValue):
                    ok, why = self.classify(v.value, depth + 1)
                    if not ok:
                        return ok, why
            return True, ""
        if _is_print_call(node, p) or _is_print_map(node, p):
            return True, ""
        if isinstance(node, ast.Call):
            f = node.func
            # "sep".join(x), x.format(...), str methods on printed strings
            if isinstance(f, ast.Attribute) and f.attr in {"join", "format", "strip", "replace", "lower", "upper"}:
                parts = [f.value, *node.args, *[k.value for k in node.keywords]]
                for part in parts:
                    ok, why = self.classify(part, depth + 1)
                    if not ok:
                        return ok, why
                return True, ""
            if isinstance(f, ast.Name) and f.id in {"len", "str", "int", "repr", "list", "tuple", "sorted", "range", "enumerate", "zip"}:
                if f.id in {"len", "int", "range"}:
                    return True, ""
                for part in node.args:
                    ok, why = self.classify(part, depth + 1)
                    if not ok:
                        return ok, why
                return True, ""
            # helper methods of the same class that return strings built from integers only
            if isinstance(f, ast.Attribute) and isinstance(f.value, ast.Name) and f.value.id in {"self", "cls"} and f.attr in self.safe_methods:
                return True, ""
            # helper method of the same class that receives the printer: judge its returns
            if isinstance(f, ast.Attribute) and isinstance(f.value, ast.Name) and f.value.id in {"self", "cls"} and self.fn.cls is not None:
                helper = self.tree.lookup_method(self.fn.cls, f.attr)
                passes_printer = any(isinstance(a, ast.Name) and a.id == p for a in [*node.args, *[k.value for k in node.keywords]])
                if helper is not None and passes_printer and depth < 6 and helper is not self.fn:
                    idx = next(i for i, a in enumerate(node.args) if isinstance(a, ast.Name) and a.id == p) if any(isinstance(a, ast.Name) and a.id == p for a in node.args) else None
                    sub = PrintTaint(self.tree, helper, self.class_literals, self.safe_methods)
                    if idx is not None and len(helper.params) > idx + 1:
                        sub.printer = helper.params[idx + 1]
                    else:
                        kw = next((k.arg for k in node.keywords if isinstance(k.value, ast.Name) and k.value.id == p), None)
                        if kw:
                            sub.printer = kw
                    rets = [n for n in walk_function(helper.node, nested=False) if isinstance(n, ast.Return) and n.value is not None]
                    if rets:
                        for r in rets:
                            ok, why = sub.classify(r.value, depth + 1)
                            if not ok:
                                return False, f"helper {helper.qual}: {why}"
                        return True, ""
            return False, f"value of call {unparse(node)[:60]} does not pass the printer"
        if isinstance(node, ast.Attribute):
            chain = attr_chain(node)
            if chain and chain.startswith("self.") and chain.count(".") == 1 and node.attr in self.class_literals:
                return True, ""
            return False, f"'{unparse(node)}' is interpolated without printer._print"
        if isinstance(node, ast.Name):
            defs = self.rd.reaching(node) if isinstance(node.ctx, ast.Load) else set()
            if not defs:
                return False, f"no definition reaches '{node.id}'"
            for d in defs:
                ok, why = self._classify_def(d, depth + 1)
                if not ok:
                    return ok, why
            return True, ""
        if isinstance(node, (ast.BinOp,)):
            for part in (node.left, node.right):
                ok, why = self.classify(part, depth + 1)
                if not ok:
                    return ok, why
            return True, ""
        if isinstance(node, ast.IfExp):
            for part in (node.body, node.orelse):
                ok, why = self.classify(part, depth + 1)
                if not ok:
                    return ok, why
            return True, ""
        if isinstance(node, (ast.ListComp, ast.GeneratorExp, ast.SetComp)):
            return self.classify(node.elt, depth + 1)
        if isinstance(node, (ast.Tuple, ast.List)):
            for e in node.elts:
                ok, why = self.classify(e, depth + 1)
                if not ok:
                    return ok, why
            return True, ""
        if isinstance(node, ast.Subscript):
            return self.classify(node.value, depth + 1)
        if isinstance(node, ast.Starred):
            return self.classify(node.value, depth + 1)
        return False, f"unrecognised construct {type(node).__name__}: {unparse(node)[:60]}"

    def _classify_def(self, d, depth: int) -> tuple[bool, str]:
        key = id(d)
        if key in self._memo:
            return self._memo[key]
        self._memo[key] = (True, "")  # cycles (loops) are optimistic on the back edge
        if d.kind == "param":
            res = (False, f"parameter '{d.name}' interpolated raw")
        elif d.kind in {"assign", "comp", "for", "aug", "store", "with"} and d.value is not None:
            res = self.classify(d.value, depth)
            if d.kind in {"aug", "store"} and res[0]:
                for dep in d.deps:
                    if dep.name == d.name and dep is not d:
                        res = self._classify_def(dep, depth + 1)
                        if not res[0]:
                            break
        else:
            res = (False, f"definition of '{d.name}' ({d.kind}) is not a printed string")
        self._memo[key] = res
        return res

    def interpolations(self) -> Iterator[tuple[ast.AST, ast.AST]]:
        """(container, interpolated expression) for every f-string placeholder,
        %-operand and .format() argument that reaches a ``return``."""
        for node in walk_function(self.fn.node):
            if isinstance(node, ast.JoinedStr):
                for v in node.values:
                    if isinstance(v, ast.FormattedValue):
                        yield node, v.value
            elif isinstance(node, ast.BinOp) and isinstance(node.op, ast.Mod) and isinstance(node.left, (ast.Constant, ast.JoinedStr)):
                if isinstance(node.left, ast.Constant) and not isinstance(node.left.value, str):
                    continue
                operands = node.right.elts if isinstance(node.right, ast.Tuple) else [node.right]
                for o in operands:
                    yield node, o
            elif isinstance(node, ast.Call) and isinstance(node.func, ast.Attribute) and node.func.attr == "format":
                if isinstance(node.func.value, ast.Constant) and isinstance(node.func.value.value, str):
                    for o in [*node.args, *[k.value for k in node.keywords]]:
                        yield node, o


def class_literal_attrs(tree: Tree, fn: FuncInfo) -> set[str]:
    """Names of class-level attributes (whole MRO, repo part) whose value is a literal."""
    out: set[str] = set()
    if fn.cls is None:
        return out
    for c in tree.mro(fn.cls):
        for st in c.node.body:
            if isinstance(st, ast.Assign) and isinstance(st.value, ast.Constant):
                for t in st.targets:
                    if isinstance(t, ast.Name):
                        out.add(t.id)
            if isinstance(st, ast.AnnAssign) and isinstance(st.value, ast.Constant) and isinstance(st.target, ast.Name):
                out.add(st.target.id)
    return out


def string_only_methods(tree: Tree, fn: FuncInfo) -> set[str]:
    """Methods of the class (static helpers) whose parameters are all annotated int/str:
    their results cannot contain an unprinted SymPy object."""
    out: set[str] = set()
    if fn.cls is None:
        return out
    for c in tree.mro(fn.cls):
        for name, m in c.methods.items():
            args = [a for a in m.node.args.args if a.arg not in {"self", "cls"}]
            if args and all(a.annotation is not None and unparse(a.annotation) in {"int", "str"} for a in args):
                out.add(name)
    return out


def require(cond: bool, what: str) -> None:
    if not cond:
        raise AnalysisError(what)


# --------------------------------------------------------------------------- R-SYMPAIR

SYMBOL_CTORS = {"sympy.Symbol": "Symbol", "sympy.symbols": "symbols", "sympy.IndexedBase": "IndexedBase", "sympy.Dummy": "Dummy"}


def _skeleton(node: ast.AST) -> str | None:
    if isinstance(node, ast.Constant) and isinstance(node.value, str):
        return node.value
    if isinstance(node, ast.JoinedStr):
        return "".join(str(v.value) if isinstance(v, ast.Constant) else "{}" for v in node.values)
    return None


def symbol_sites(tree: Tree, module_prefixes: Iterable[str]) -> list[dict]:
    """Every symbol construction (``sp.Symbol/symbols/IndexedBase/Dummy``) in the given
    modules: function, kind, name skeleton (f-string placeholders -> ``{}``), assumptions."""
    from .terms import expand_symbols

    out = []
    prefixes = tuple(module_prefixes)
    for q, fn in sorted(tree.funcs.items()):
        if not q.startswith(prefixes):
            continue
        for call, callee in tree.calls_in(fn, nested=False):
            if callee not in SYMBOL_CTORS or not call.args:
                continue
            name_node = call.args[0]
            skels = [_skeleton(name_node)]
            if skels[0] is None and isinstance(name_node, ast.Name):
                # name built in a local variable first (possibly on several branches)
                rd = RD(fn.node)
                defs = rd.reaching(name_node)
                found = [_skeleton(d.value) for d in defs if d.value is not None]
                if found and all(f is not None for f in found) and len(found) == len(defs):
                    skels = sorted(set(found))
            assumptions = {k.arg: unparse(k.value) for k in call.keywords if k.arg and k.arg not in {"shape", "cls", "seq"}}
            star = any(k.arg is None for k in call.keywords)
            kind = SYMBOL_CTORS[callee]
            names = []
            for skel in skels:
                if kind == "symbols" and skel is not None and "{}" not in skel:
                    names.extend(expand_symbols(skel))
                else:
                    names.append(skel)
            for nm in names:
                out.append({
                    "fn": q,
                    "node": call,
                    "kind": "Symbol" if kind == "symbols" else kind,
                    "skeleton": nm,
                    "assumptions": assumptions,
                    "star_kwargs": star,
                })
    return out


# --------------------------------------------------------------------------- R-PREC


def _template(js: ast.JoinedStr) -> tuple[str, list[ast.AST]]:
    """Template text with ``\\x00<i>\\x01`` marks for the placeholders."""
    parts, holes = [], []
    for v in js.values:
        if isinstance(v, ast.Constant):
            parts.append(str(v.value))
        else:
            parts.append(f"\x00{len(holes)}\x01")
            holes.append(v.value)
    return "".join(parts), holes


def _top_kind(node: ast.AST) -> str:
    """'atomic' (call / subscript / name of such), 'product' (* / ** at the top), else 'arbitrary'."""
    if isinstance(node, ast.Call):
        # SymPy's elementary functions evaluate automatically: sin(asin(a + b)) IS a + b, cos(acos(x)) is x,
        # sqrt(x**2) may be x - what is printed for such a call can have any top-level operator
        f = node.func
        if isinstance(f, ast.Attribute) and isinstance(f.value, ast.Name) and f.value.id in {"sp", "sympy"} and f.attr[:1].islower():
            return "arbitrary"
        return "atomic"
    if isinstance(node, (ast.Subscript, ast.Constant)):
        return "atomic"
    if isinstance(node, ast.BinOp) and isinstance(node.op, (ast.Mult, ast.Div, ast.Pow)):
        return "product"
    if isinstance(node, ast.UnaryOp):
        return "arbitrary"
    return "arbitrary"


def field_kinds(tree: Tree, cls_qual: str) -> dict[str, str] | None:
    """For a *private* expression class: the syntactic kind of what its constructor sites
    pass for each field ('atomic' / 'product' / 'arbitrary').  None for public classes
    (users may pass anything)."""
    from .exprmodel import expression_classes
    from .inline import Inliner

    classes = expression_classes(tree)
    if cls_qual not in classes or not classes[cls_qual].name.startswith("_"):
        return None
    cls = classes[cls_qual]
    names = [f.name for f in cls.fields]
    kinds: dict[str, str] = {}
    n_sites = 0
    order = {"atomic": 0, "product": 1, "arbitrary": 2}
    for q, fn in tree.funcs.items():
        if not q.startswith("ampform"):
            continue
        for call, callee in tree.calls_in(fn, nested=False):
            if callee != cls_qual:
                continue
            n_sites += 1
            inl = Inliner(fn.node)
            given = dict(zip(names, call.args))
            for k in call.keywords:
                if k.arg:
                    given[k.arg] = k.value
            for name, expr in given.items():
                kind = _top_kind(inl.expr(expr))
                if name not in kinds or order[kind] > order[kinds[name]]:
                    kinds[name] = kind
    if n_sites == 0:
        return None
    return kinds


def precedence_hazards(tree: Tree, fn: FuncInfo) -> list[tuple[ast.AST, str]]:
    """Placeholders of generated-code templates that sit next to an operator of higher
    precedence than what the printed sub-expression may have at its top level."""
    out: list[tuple[ast.AST, str]] = []
    printer = fn.params[1] if len(fn.params) > 1 else "printer"
    rd = RD(fn.node)
    kinds = field_kinds(tree, fn.cls.qual) if fn.cls is not None else None
    fields_by_local: dict[str, str] = {}
    if fn.cls is not None:
        from .exprmodel import expression_classes

        ec = expression_classes(tree).get(fn.cls.qual)
        if ec is not None:
            for st, elts, _ in self_args_unpackings(fn):
                for e, f in zip(elts, [x.name for x in ec.sympy_fields]):
                    if isinstance(e, ast.Name):
                        fields_by_local[e.id] = f

    def value_kind(node: ast.AST, depth: int = 0) -> str:
        """Kind of the *printed text* this expression denotes."""
        if depth > 8:
            return "arbitrary"
        if isinstance(node, ast.Call):
            f = node.func
            if isinstance(f, ast.Attribute) and isinstance(f.value, ast.Name) and f.value.id == printer:
                if f.attr == "parenthesize":
                    return "atomic"
                if f.attr.startswith("_print") and node.args:
                    arg = node.args[0]
                    # self.<field> of a private class: what do the constructor sites pass?
                    if isinstance(arg, ast.Attribute) and isinstance(arg.value, ast.Name) and arg.value.id == "self" and kinds is not None:
                        return kinds.get(arg.attr, "arbitrary")
                    return "arbitrary"
            return "arbitrary"
        if isinstance(node, ast.JoinedStr):
            text, _ = _template(node)
            if re.fullmatch(r"[A-Za-z_][\w.]*\(.*\)", text.strip(), re.S):
                return "atomic"
            return "arbitrary"
        if isinstance(node, ast.Constant):
            return "atomic"
        if isinstance(node, ast.Name):
            if node.id in fields_by_local and kinds is not None:
                # a, b = map(printer._print, self.args)
                defs = rd.reaching(node)
                if defs and all(d.value is not None and "map(" in unparse(d.value) for d in defs):
                    return kinds.get(fields_by_local[node.id], "arbitrary")
            worst = "atomic"
            order = {"atomic": 0, "product": 1, "arbitrary": 2}
            defs = rd.reaching(node)
            if not defs:
                return "arbitrary"
            for d in defs:
                if d.value is None or d.index is not None and "map(" not in unparse(d.value):
                    return "arbitrary"
                k = "arbitrary" if "map(" in unparse(d.value) else value_kind(d.value, depth + 1)
                if order[k] > order[worst]:
                    worst = k
            return worst
        return "arbitrary"

    for node in walk_function(fn.node, nested=False):
        if not isinstance(node, ast.JoinedStr):
            continue
        text, holes = _template(node)
        # only templates that are generated code: heuristically those that reach a return
        for i, hole in enumerate(holes):
            mark = f"\x00{i}\x01"
            pos = text.index(mark)
            before = text[:pos].rstrip()
            after = text[pos + len(mark):].lstrip()
            hazards = []
            if before.endswith("-") or (before.endswith("+") and False):
                # unary or binary minus: `- a + b` changes meaning
                hazards.append(("minus before", "product"))
            if before.endswith(("*", "/", "%", "@")):
                hazards.append((f"`{before[-2:].strip()}` before", "atomic"))
            if after.startswith(("**",)):
                hazards.append(("`**` after", "atomic"))
            elif after.startswith(("*", "/", "%", "@")):
                hazards.append((f"`{after[0]}` after", "atomic"))
            elif after.startswith(("[", ".")) and not after.startswith("..."):
                hazards.append((f"`{after[0]}` after", "atomic"))
            if not hazards:
                continue
            kind = value_kind(hole)
            order = {"atomic": 0, "product": 1, "arbitrary": 2}
            for what, need in hazards:
                if order[kind] > order[need]:
                    out.append((hole, f"placeholder {{{unparse(hole)}}} has `{what}` in the template but the printed sub-expression may be {'a sum' if kind == 'arbitrary' else 'a product'} (not parenthesised)"))
    return out


# --------------------------------------------------------------------------- R-REBUILD
# SymPy operations that reconstruct every visited node as ``node.func(*node.args)``.  An
# @unevaluated class keeps arguments declared with argument(sympify=False) outside ``args``
# (the decorator only carries them through its own _xreplace / _eval_subs / __getnewargs__
# hooks), so such a reconstruction silently falls back to the field's default.
REBUILDERS = {
    "together", "cancel", "factor", "factor_terms", "simplify", "expand", "expand_mul", "expand_complex",
    "expand_func", "expand_trig", "expand_log", "expand_power_base", "expand_power_exp", "apart", "collect",
    "ratsimp", "radsimp", "powsimp", "powdenest", "trigsimp", "nsimplify", "signsimp", "combsimp", "gammasimp",
    "logcombine", "cse", "rewrite", "sqrtdenest", "separatevars", "bottom_up", "use", "nfloat",
}  # fmt: skip
REBUILD_METHODS = REBUILDERS - {"cse", "bottom_up", "use"}


def carrier_classes(tree: Tree, field_names: tuple[str, ...]) -> dict[str, list[str]]:
    """Expression classes with a non-sympified argument among ``field_names``."""
    from .exprmodel import expression_classes

    out = {}
    for q, ec in expression_classes(tree).items():
        names = [f.name for f in ec.non_sympy_fields if f.name in field_names]
        if names:
            out[q] = names
    return out


def rebuild_sites(tree: Tree, module_prefixes: tuple[str, ...], carriers: dict[str, list[str]]) -> tuple[list[dict], dict]:
    """Calls of a REBUILDER whose operand may contain an instance of a carrier class.

    operand "may contain a carrier": its reaching-definition closure contains a call to a repo
    function from which a carrier constructor is reachable in the call graph, or a parameter
    that receives such a value at some call site of the enclosing function (fixpoint)."""
    from .dataflow import RD

    graph = tree.call_graph()
    producers = {q for q in tree.funcs if any(c in tree.reachable(q, graph) for c in carriers)}
    producers |= set(carriers)
    fns = [f for q, f in tree.funcs.items() if q.startswith(module_prefixes) and f.outer is None]
    rds = {f.qual: RD(f.node) for f in fns}

    def find_rd(fn):
        top = fn
        while top.outer is not None:
            top = top.outer
        return rds.get(top.qual)

    tainted_params: set[tuple[str, str]] = set()

    def expr_tainted(fn, rd, expr) -> str | None:
        for n in ast.walk(expr):
            if isinstance(n, ast.Call):
                callee = tree.callee(n, fn)
                if callee in producers:
                    return f"{callee.split('::')[-1]}(...)"
        for d in rd.closure(rd.uses(expr)):
            if d.kind == "param" and (fn.qual, d.name) in tainted_params:
                return f"parameter `{d.name}`"
            v = d.value if isinstance(d.value, ast.AST) else None
            if v is not None:
                for n in ast.walk(v):
                    if isinstance(n, ast.Call) and tree.callee(n, fn) in producers:
                        return f"{tree.callee(n, fn).split('::')[-1]}(...)"
        return None

    all_fns = [f for q, f in tree.funcs.items() if q.startswith(module_prefixes)]
    for _ in range(4):  # propagate taint into parameters through call sites
        grew = False
        for fn in all_fns:
            rd = find_rd(fn)
            if rd is None:
                continue
            for call, callee in tree.calls_in(fn, nested=False):
                tgt = tree.funcs.get(callee) if callee else None
                if tgt is None:
                    continue
                params = tgt.params[1:] if tgt.cls is not None and tgt.params[:1] in (["self"], ["cls"]) else tgt.params
                bound = list(zip(params, call.args)) + [(k.arg, k.value) for k in call.keywords if k.arg]
                for pname, arg in bound:
                    if (tgt.qual, pname) not in tainted_params and expr_tainted(fn, rd, arg):
                        tainted_params.add((tgt.qual, pname))
                        grew = True
        if not grew:
            break

    sites = []
    n_calls = 0
    for fn in all_fns:
        rd = find_rd(fn)
        if rd is None:
            continue
        for node in walk_function(fn.node, nested=False):
            if not isinstance(node, ast.Call):
                continue
            name, operand = None, None
            f = node.func
            if isinstance(f, ast.Attribute) and isinstance(f.value, ast.Name) and f.value.id in {"sp", "sympy"} and f.attr in REBUILDERS and node.args:
                name, operand = f.attr, node.args[0]
            elif isinstance(f, ast.Name) and f.id in REBUILDERS and (tree.callee(node, fn) or "").startswith("sympy") and node.args:
                name, operand = f.id, node.args[0]
            elif isinstance(f, ast.Attribute) and f.attr in REBUILD_METHODS and not (isinstance(f.value, ast.Name) and f.value.id in {"sp", "sympy"}):
                name, operand = f.attr, f.value
            elif isinstance(f, ast.Attribute) and f.attr in {"applyfunc", "replace"} and node.args:
                a0 = node.args[0]
                inner = a0.attr if isinstance(a0, ast.Attribute) else a0.id if isinstance(a0, ast.Name) else None
                if f.attr == "applyfunc" and inner in REBUILDERS:
                    name, operand = f"applyfunc({inner})", f.value
            if name is None:
                continue
            n_calls += 1
            why = expr_tainted(fn, rd, operand)
            sites.append({"fn": fn, "node": node, "name": name, "operand": operand, "carrier_via": why})
    return sites, {"producers": len(producers), "tainted_params": sorted(f"{a}({b})" for a, b in tainted_params), "rebuilder_calls": n_calls}


# --------------------------------------------------------------------------- R-SAMETOPOLOGY
def topology_mismatches(tree: Tree, module_prefixes: tuple[str, ...]) -> tuple[list[dict], int]:
    """Calls `f(T, ..., x, ...)` of a repo function whose first parameter is named `topology`, where
    an argument `x` was computed (reaching-definition closure) from ANOTHER topology value than T.

    State ids, node ids and id sets only mean something relative to the topology they were read
    from; combining ids of one topology with another topology object silently selects the wrong
    (or no) states as soon as a reaction has more than one topology."""
    out: list[dict] = []
    n_calls = 0
    # functions whose result depends on the final-state ids only, which all topologies of one
    # reaction share (one line of reason per exemption)
    topology_independent = {
        "ampform.kinematics.lorentz::create_four_momentum_symbols",  # {i: p_i for i in topology.outgoing_edge_ids}
    }

    def first_param_is_topology(callee: str | None) -> bool:
        f = tree.funcs.get(callee) if callee else None
        if f is None:
            return False
        params = f.params[1:] if f.cls is not None and f.params[:1] in (["self"], ["cls"]) else f.params
        return bool(params) and params[0] == "topology"

    for q, fn in sorted(tree.funcs.items()):
        if not q.startswith(module_prefixes) or fn.outer is not None:
            continue
        rd = RD(fn.node)

        def ident(expr: ast.AST, scope_rd=rd):
            """Identity of a topology-valued expression: text + reaching definitions of its names."""
            names = [n for n in ast.walk(expr) if isinstance(n, ast.Name) and isinstance(n.ctx, ast.Load)]
            defs = frozenset(id(d.node) for n in names for d in scope_rd.reaching(n))
            return (re.sub(r"\s+", "", unparse(expr)), defs)

        for node in walk_function(fn.node, nested=True):
            if not (isinstance(node, ast.Call) and node.args):
                continue
            scope = tree.func_of(node) or fn
            if not first_param_is_topology(tree.callee(node, scope)):
                continue
            n_calls += 1
            t_id = ident(node.args[0])
            for arg in [*node.args[1:], *[k.value for k in node.keywords]]:
                seen_nodes = set()
                exprs = [arg] + [d.value for d in rd.closure(rd.uses(arg)) if isinstance(d.value, ast.AST)]
                for e in exprs:
                    for sub in ast.walk(e):
                        if id(sub) in seen_nodes:
                            continue
                        seen_nodes.add(id(sub))
                        other = None
                        if (isinstance(sub, ast.Call) and sub.args and sub is not node and first_param_is_topology(tree.callee(sub, scope))
                                and tree.callee(sub, scope) not in topology_independent):
                            other = sub.args[0]
                        if other is None:
                            continue
                        o_id = ident(other)
                        if o_id != t_id:
                            out.append({"fn": fn, "call": node, "arg": arg, "topology": node.args[0], "other": other, "via": sub})
    return out, n_calls


# --------------------------------------------------------------------------- R-LITERALID / R-MEMO
def literal_id_comparisons(tree: Tree, modules: tuple[str, ...]) -> tuple[list[dict], int]:
    """Comparisons of a state / edge / node id with an integer literal.  Ids are labels: qrules
    numbers the initial state -1 by default, but the library itself relabels topologies (0 for the
    initial state in the DPD alignment) and users may permute them; the initial / final edges are
    `topology.incoming_edge_ids` / `outgoing_edge_ids`."""
    out = []
    n = 0
    idish = re.compile(r"(state|edge|node)_ids?\b|\b(state|edge|node)_id\b|_edge_ids\b|get_parent_id|get_sibling_state_id")
    for q, fn in sorted(tree.funcs.items()):
        if not q.startswith(modules) or fn.outer is not None:
            continue
        rd = RD(fn.node)
        for node in walk_function(fn.node, nested=True):
            if not (isinstance(node, ast.Compare) and len(node.ops) == 1 and isinstance(node.ops[0], (ast.Eq, ast.NotEq, ast.Is, ast.IsNot, ast.Lt, ast.Gt, ast.LtE, ast.GtE))):
                continue
            sides = [node.left, node.comparators[0]]
            lit = [s for s in sides if (isinstance(s, ast.Constant) and isinstance(s.value, int) and not isinstance(s.value, bool))
                   or (isinstance(s, ast.UnaryOp) and isinstance(s.op, ast.USub) and isinstance(s.operand, ast.Constant) and isinstance(s.operand.value, int))]
            if len(lit) != 1:
                continue
            other = sides[0] if sides[1] is lit[0] else sides[1]
            if isinstance(other, ast.Call) and unparse(other.func) == "len":
                continue
            n += 1
            texts = [unparse(other)] + [unparse(d.value) for d in rd.closure(rd.uses(other)) if isinstance(d.value, ast.AST)]
            loops = [unparse(d.node.iter) for d in rd.closure(rd.uses(other)) if d.kind == "for" and isinstance(d.node, ast.For)]
            if any(idish.search(t) for t in texts + loops) and not any(t.startswith("len(") for t in texts[:1]):
                out.append({"fn": fn, "node": node, "other": other, "literal": unparse(lit[0])})
    return out, n


def memo_invalidation(tree: Tree, cls_qual: str) -> list[dict]:
    """Lazily computed attributes (`if self.A is None: self.A = f(self.B, ...)`) and the methods
    that change an input B without resetting A."""
    cls = tree.classes[cls_qual]
    memos: dict[str, dict] = {}

    def self_attr(n):
        return n.attr if isinstance(n, ast.Attribute) and isinstance(n.value, ast.Name) and n.value.id == "self" else None

    for m in cls.methods.values():
        for node in walk_function(m.node):
            if not isinstance(node, ast.If):
                continue
            t = node.test
            a = None
            if isinstance(t, ast.Compare) and len(t.ops) == 1 and isinstance(t.ops[0], ast.Is) and isinstance(t.comparators[0], ast.Constant) and t.comparators[0].value is None:
                a = self_attr(t.left)
            if a is None:
                continue
            stores = [s for s in ast.walk(node) if isinstance(s, ast.Assign) and any(self_attr(x) == a for x in s.targets)]
            if not stores:
                continue
            deps = {self_attr(n) for b in node.body for n in ast.walk(b) if self_attr(n) and self_attr(n) != a and isinstance(n.ctx, ast.Load)}
            memos[a] = {"method": m, "node": node, "deps": {d for d in deps if d}}
    out = []
    for a, info in memos.items():
        for m in cls.methods.values():
            if m is info["method"]:
                continue
            writes = set()
            for node in walk_function(m.node):
                tgt = None
                if isinstance(node, (ast.Assign, ast.AugAssign, ast.AnnAssign)):
                    for x in (node.targets if isinstance(node, ast.Assign) else [node.target]):
                        base = x
                        while isinstance(base, ast.Subscript):
                            base = base.value
                        if self_attr(base):
                            writes.add(self_attr(base))
                elif isinstance(node, ast.Call) and isinstance(node.func, ast.Attribute) and node.func.attr in {"add", "update", "append", "extend", "remove", "discard", "clear", "pop", "insert", "setdefault"}:
                    if self_attr(node.func.value):
                        writes.add(self_attr(node.func.value))
            touched = writes & info["deps"]
            if not touched or m.name == "__init__":
                continue
            resets = a in writes or any(
                isinstance(c, ast.Call) and isinstance(c.func, ast.Attribute) and isinstance(c.func.value, ast.Name) and c.func.value.id == "self"
                and c.func.attr in cls.methods and any(
                    isinstance(s, ast.Assign) and any(self_attr(x) == a for x in s.targets) for s in ast.walk(cls.methods[c.func.attr].node))
                for c in walk_function(m.node))
            out.append({"memo": a, "writer": m, "touched": sorted(touched), "resets": resets, "computed_in": info["method"]})
    return out


# --------------------------------------------------------------------------- R-SIMULSUBS / R-OWNDOIT
def sequential_subs_sites(tree: Tree, module_prefixes: tuple[str, ...]) -> list[dict]:
    """`expr.subs(<mapping with several pairs>)` without simultaneous=True whose replacement values
    are arbitrary expressions (function parameters, self.args, unfolded arguments): SymPy applies the
    pairs one after the other, so a replacement that contains a later key is substituted again
    ({a: b, b: c} sends a to c).  xreplace / simultaneous=True / Dummy keys are the safe forms."""
    out = []
    for q, fn in sorted(tree.funcs.items()):
        if not q.startswith(module_prefixes) or fn.outer is not None:
            continue
        rd = RD(fn.node)
        for node in walk_function(fn.node, nested=True):
            if not (isinstance(node, ast.Call) and isinstance(node.func, ast.Attribute) and node.func.attr == "subs" and len(node.args) == 1):
                continue
            if any(k.arg == "simultaneous" and isinstance(k.value, ast.Constant) and k.value.value is True for k in node.keywords):
                continue
            arg = node.args[0]
            exprs = [arg] + [d.value for d in rd.closure(rd.uses(arg)) if isinstance(d.value, ast.AST)]
            multi = None
            for e in exprs:
                for sub in ast.walk(e):
                    if isinstance(sub, ast.Call) and unparse(sub.func) in {"zip", "dict"} and sub.args:
                        multi = sub
                    if isinstance(sub, ast.Dict) and len(sub.keys) > 1:
                        multi = sub
                    if isinstance(sub, ast.DictComp):
                        multi = sub
            if multi is None:
                continue
            txt = " ".join(unparse(e) for e in exprs)
            arbitrary = any(k in txt for k in ("self.args", ".doit(", "*args")) or any(
                d.kind == "param" for d in rd.closure(rd.uses(arg)))
            dummy = "Dummy(" in txt
            out.append({"fn": fn, "node": node, "arbitrary": arbitrary and not dummy, "mapping": unparse(multi)[:60]})
    return out


# --------------------------------------------------------------------------- R-STRUCTSUBS


def structural_subs_on_params(tree: Tree, module_prefixes: tuple[str, ...]) -> list[dict]:
    """``expr.subs(p, v)`` / ``expr.subs({p: v})`` / ``expr.xreplace({p: v})`` where ``p`` is a
    parameter of the function (or an argument unpacked from ``self.args``) and ``expr`` was built
    from ``p`` with SymPy operations.  The substitution is structural: it only finds ``p`` where
    it survives auto-simplification literally (``sqrt(q2*d**2)`` becomes ``d*sqrt(q2)`` for a
    positive ``d``), so it is a correct way to evaluate 'expr at p = v' only when ``p`` is an
    atomic symbol.  A site is *safe* when every caller inside the package hands a freshly created
    Symbol/Dummy for that parameter."""
    out = []
    callers: dict[str, list[tuple[FuncInfo, ast.Call]]] = {}
    for q, fn in tree.funcs.items():
        for call, callee in tree.calls_in(fn):
            if callee:
                callers.setdefault(callee, []).append((fn, call))
    for q, fn in sorted(tree.funcs.items()):
        if not q.startswith(module_prefixes):
            continue
        rd = RD(fn.node)
        params = set(fn.params)
        for node in walk_function(fn.node):
            if not (isinstance(node, ast.Call) and isinstance(node.func, ast.Attribute) and node.func.attr in {"subs", "xreplace"} and node.args):
                continue
            keys: list[ast.AST] = []
            if node.func.attr == "subs" and len(node.args) == 2:
                keys = [node.args[0]]
            elif isinstance(node.args[0], ast.Dict):
                keys = [k for k in node.args[0].keys if k is not None]
            for k in keys:
                if not isinstance(k, ast.Name):
                    continue
                defs = list(rd.reaching(k))
                is_param = k.id in params and all(d.kind == "param" for d in defs)
                from_args = any(d.value is not None and "self.args" in unparse(d.value) for d in defs)
                if not (is_param or from_args):
                    continue
                # does the receiver depend on the key?
                recv_names = {n.id for n in ast.walk(node.func.value) if isinstance(n, ast.Name)}
                recv_defs = rd.closure(rd.uses(node.func.value))
                depends = k.id in recv_names or any(
                    d.value is not None and any(isinstance(n, ast.Name) and n.id == k.id for n in ast.walk(d.value)) for d in recv_defs)
                if not depends:
                    continue
                unsafe_callers = []
                if is_param:
                    pos = fn.params.index(k.id)
                    sites = callers.get(q, [])
                    for cfn, call in sites:
                        arg = None
                        off = 1 if fn.cls is not None and fn.params and fn.params[0] in {"self", "cls"} else 0
                        if pos - off < len(call.args) and pos - off >= 0:
                            arg = call.args[pos - off]
                        for kw in call.keywords:
                            if kw.arg == k.id:
                                arg = kw.value
                        if arg is None:
                            continue
                        fresh = False
                        if isinstance(arg, ast.Name):
                            crd = RD(cfn.node)
                            adefs = [d for d in crd.reaching(arg)]
                            fresh = bool(adefs) and all(
                                d.value is not None and isinstance(d.value, ast.Call) and unparse(d.value.func).split(".")[-1] in {"Symbol", "Dummy", "symbols"} for d in adefs)
                        if not fresh:
                            unsafe_callers.append(f"{cfn.qual}: `{unparse(arg)[:40]}`")
                    if sites and not unsafe_callers:
                        continue
                out.append({"fn": fn, "node": node, "key": k.id, "callers": unsafe_callers or ["(an argument of the expression: arbitrary)"]})
    return out


# --------------------------------------------------------------------------- model execution
#
# Rules about small imperative hooks (the substitution / hashing hooks of the decorator) state what
# the hook RETURNS for which arguments.  Instead of matching one spelling of the loop, the hook is
# interpreted - statement by statement, by this file, nothing of the package is imported or run - on
# MODEL objects that the rule constructs (an instance with a few field values, arguments that report
# a replacement or not, a rule that contains some of them ...) and its result is compared with the
# result the specification gives for the same model.  Helper functions of the package are entered,
# so an extracted helper, a comprehension instead of a loop, guard clauses instead of nesting,
# `append` instead of an index store are all the same to the rule.  Anything outside the interpreted
# subset of Python, or any object/callable the rule gave no model for, is a ModelError (fail closed).


class ModelError(AnalysisError):
    """The interpreted function leaves the modelled subset (construct or object without a model)."""


class ModelRaise(Exception):
    """The interpreted code raises an exception (``kind`` = class name)."""

    def __init__(self, kind: str, msg: str = "") -> None:
        super().__init__(f"{kind}: {msg}" if msg else kind)
        self.kind = kind


class MObj:
    """An object of the model world.  ``attrs``: attribute -> value; a Python callable value is a
    method taking (args, kwargs).  ``open`` objects stand for rich objects (SymPy expressions): reading
    an attribute without a model is a ModelError; closed objects raise AttributeError instead.
    Equality and hash are identity."""

    def __init__(self, label: str, attrs: dict | None = None, kinds=(), open: bool = True, truth: bool = True, hashable: bool = True) -> None:  # noqa: A002
        self.label = label
        self.attrs = dict(attrs or {})
        self.kinds = set(kinds)
        self.open = open
        self.truth = truth
        self.hashable = hashable
        self.reads: list[str] = []

    def __repr__(self) -> str:
        return f"<{self.label}>"


class MRef:
    """A module-level name without a model value (an external class, a repo class): compared by name."""

    def __init__(self, name: str) -> None:
        self.name = name

    def __eq__(self, other) -> bool:
        return isinstance(other, MRef) and other.name == self.name

    def __hash__(self) -> int:
        return hash(("MRef", self.name))

    def __repr__(self) -> str:
        return f"<{self.name}>"


class _FuncRef:
    def __init__(self, fn: FuncInfo | None, node: ast.AST | None = None, env: dict | None = None, scope: FuncInfo | None = None) -> None:
        self.fn, self.node, self.env, self.scope = fn, node, env, scope


_BUILTIN_KINDS = {
    dict: {"dict", "collections.abc.Mapping", "collections.abc.MutableMapping", "typing.Mapping", "collections.abc.Iterable", "collections.abc.Collection"},
    list: {"list", "collections.abc.Sequence", "collections.abc.Iterable", "collections.abc.Collection"},
    tuple: {"tuple", "collections.abc.Sequence", "collections.abc.Iterable", "collections.abc.Collection"},
    set: {"set", "collections.abc.Set", "collections.abc.Iterable", "collections.abc.Collection"},
    frozenset: {"frozenset", "collections.abc.Set", "collections.abc.Iterable", "collections.abc.Collection"},
    str: {"str"},
    bool: {"bool", "int"},
    int: {"int"},
    type(None): {"NoneType"},
}
_SIGNAL_BREAK, _SIGNAL_CONTINUE = ("break",), ("continue",)


class ModelExec:
    """Interpreter of a small Python subset over model values (None, bool, int, str, tuple, list, dict,
    set, MObj, MRef).

    ``externals``: resolved dotted name (or bare name) -> Python callable(args, kwargs) modelling an
    external function.  ``intercept(fn, args, kwargs)`` is asked before a function of the package is
    entered and may return ``(True, value)`` to model the call instead."""

    def __init__(self, tree: Tree, externals: dict | None = None, intercept=None, max_depth: int = 8, max_steps: int = 200_000) -> None:
        self.tree = tree
        self.externals = {**self._default_externals(), **(externals or {})}
        self.intercept = intercept
        self.max_depth = max_depth
        self.max_steps = max_steps
        self.steps = 0
        self.entered: list[str] = []  # qualnames of the package functions that were interpreted

    # ------------------------------------------------------------------ model of a few externals
    @staticmethod
    def _default_externals() -> dict:
        def isclass(args, kwargs):
            return isinstance(args[0], MObj) and "class" in args[0].kinds or isinstance(args[0], MRef)

        def is_dataclass(args, kwargs):
            return isinstance(args[0], MObj) and "__dataclass_fields__" in args[0].attrs

        def fields(args, kwargs):
            if isinstance(args[0], MObj) and "__dataclass_fields__" in args[0].attrs:
                return tuple(args[0].attrs["__dataclass_fields__"])
            raise ModelRaise("TypeError", "must be called with a dataclass type or instance")

        def aresame(args, kwargs):
            return args[0] is args[1] or (not isinstance(args[0], MObj) and not isinstance(args[1], MObj) and type(args[0]) is type(args[1]) and args[0] == args[1])

        return {"inspect.isclass": isclass, "dataclasses.is_dataclass": is_dataclass, "dataclasses.fields": fields, "sympy.core.basic._aresame": aresame}

    # ------------------------------------------------------------------ values
    def truth(self, v) -> bool:
        if isinstance(v, MObj):
            if "__bool__" in v.attrs:
                return bool(v.attrs["__bool__"]([], {}))
            if "__len__" in v.attrs:
                return bool(v.attrs["__len__"]([], {}))
            return v.truth
        if isinstance(v, (MRef, _FuncRef)) or callable(v):
            return True
        return bool(v)

    def kinds_of(self, v) -> set:
        if isinstance(v, MObj):
            return v.kinds
        for t, names in _BUILTIN_KINDS.items():
            if type(v) is t:
                return names
        return set()

    def iterate(self, v, node=None) -> list:
        if isinstance(v, (list, tuple)):
            return list(v)
        if isinstance(v, dict):
            return list(v.keys())
        if isinstance(v, (set, frozenset)):
            return sorted(v, key=repr)
        if isinstance(v, str):
            return list(v)
        if isinstance(v, MObj) and "__iter__" in v.attrs:
            return list(v.attrs["__iter__"]([], {}))
        raise ModelError(f"iteration over {v!r} has no model" + (f" (`{unparse(node)[:50]}`)" if node is not None else ""))

    def contains(self, container, item) -> bool:
        if isinstance(container, MObj):
            if "__contains__" in container.attrs:
                return bool(container.attrs["__contains__"]([item], {}))
            raise ModelError(f"`in {container!r}` has no model")
        if isinstance(container, (dict, set, frozenset)):
            if isinstance(item, MObj) and not item.hashable:
                raise ModelRaise("TypeError", f"unhashable {item!r}")
            if isinstance(item, (list, dict, set)):
                raise ModelRaise("TypeError", "unhashable")
            return item in container
        if isinstance(container, (list, tuple)):
            return any(x is item or (not isinstance(x, MObj) and not isinstance(item, MObj) and x == item) for x in container)
        if isinstance(container, str) and isinstance(item, str):
            return item in container
        raise ModelError(f"`in` on {type(container).__name__} has no model")

    def getattr(self, base, name: str, node=None):
        if isinstance(base, MObj):
            base.reads.append(name)
            if name in base.attrs:
                return base.attrs[name]
            if base.open:
                raise ModelError(f"attribute .{name} of {base!r} has no model" + (f" (`{unparse(node)[:60]}`)" if node is not None else ""))
            raise ModelRaise("AttributeError", f"{base!r} has no attribute {name}")
        if isinstance(base, MRef):
            return MRef(f"{base.name}.{name}")
        if isinstance(base, dict) and name in {"get", "items", "keys", "values", "update", "pop", "setdefault", "copy"}:
            return self._dict_method(base, name)
        if isinstance(base, list) and name in {"append", "extend", "insert", "copy", "index", "pop"}:
            return self._list_method(base, name)
        if isinstance(base, (set,)) and name in {"add", "update", "copy"}:
            return {"add": lambda a, k: base.add(a[0]), "update": lambda a, k: base.update(self.iterate(a[0])), "copy": lambda a, k: set(base)}[name]
        if isinstance(base, str) and name == "join":
            return lambda a, k: base.join(str(x) for x in self.iterate(a[0]))
        if isinstance(base, str) and name in {"startswith", "endswith"}:
            return lambda a, k: getattr(base, name)(*a)
        raise ModelError(f"attribute .{name} of a {type(base).__name__} has no model" + (f" (`{unparse(node)[:60]}`)" if node is not None else ""))

    def _hash_check(self, key) -> None:
        if isinstance(key, (list, dict, set)) or (isinstance(key, MObj) and not key.hashable):
            raise ModelRaise("TypeError", f"unhashable {key!r}")

    def _dict_method(self, d: dict, name: str):
        def get(a, k):
            self._hash_check(a[0])
            return d.get(a[0], a[1] if len(a) > 1 else None)

        def update(a, k):
            for src in a:
                d.update(src if isinstance(src, dict) else dict(self.iterate(src)))
            d.update(k)

        def pop(a, k):
            if a[0] in d:
                return d.pop(a[0])
            if len(a) > 1:
                return a[1]
            raise ModelRaise("KeyError", repr(a[0]))

        return {"get": get, "items": lambda a, k: [(x, y) for x, y in d.items()], "keys": lambda a, k: list(d.keys()), "values": lambda a, k: list(d.values()),
                "update": update, "pop": pop, "setdefault": lambda a, k: d.setdefault(a[0], a[1] if len(a) > 1 else None), "copy": lambda a, k: dict(d)}[name]

    def _list_method(self, lst: list, name: str):
        def index(a, k):
            for i, x in enumerate(lst):
                if x is a[0] or (not isinstance(x, MObj) and x == a[0]):
                    return i
            raise ModelRaise("ValueError", "not in list")

        return {"append": lambda a, k: lst.append(a[0]), "extend": lambda a, k: lst.extend(self.iterate(a[0])), "insert": lambda a, k: lst.insert(a[0], a[1]),
                "copy": lambda a, k: list(lst), "index": index, "pop": lambda a, k: lst.pop(*a)}[name]

    # ------------------------------------------------------------------ builtins
    def _builtin(self, name: str):
        it = self.iterate

        def isinstance_(a, k):
            classes = a[1] if isinstance(a[1], tuple) else (a[1],)
            kinds = self.kinds_of(a[0])
            for c in classes:
                cname = c.name if isinstance(c, MRef) else c[1] if isinstance(c, tuple) and c and c[0] == "builtin" else None
                if cname is None:
                    raise ModelError(f"isinstance(..., {c!r}) has no model")
                if cname in kinds or cname.split(".")[-1] in {x.split(".")[-1] for x in kinds} or cname == "object":
                    return True
            return False

        def hasattr_(a, k):
            if isinstance(a[0], MObj):
                a[0].reads.append(a[1])
                if a[1] in a[0].attrs:
                    return True
                if a[0].open and a[1] not in a[0].attrs.get("__lacks__", ()):
                    raise ModelError(f"hasattr({a[0]!r}, {a[1]!r}) has no model")
                return False
            raise ModelError(f"hasattr on {type(a[0]).__name__} has no model")

        def getattr_(a, k):
            try:
                return self.getattr(a[0], a[1])
            except ModelRaise:
                if len(a) > 2:
                    return a[2]
                raise

        def setattr_(a, k):
            if not isinstance(a[0], MObj):
                raise ModelError("setattr on a non-model object")
            a[0].attrs[a[1]] = a[2]

        def hash_(a, k):
            self._hash_check(a[0])
            return 0

        def super_(a, k):
            inst = a[1] if len(a) > 1 else None
            if isinstance(inst, MObj) and "__super__" in inst.attrs:
                return inst.attrs["__super__"]
            raise ModelError("super() has no model here")

        def map_(a, k):
            cols = [it(x) for x in a[1:]]
            return [self.apply(a[0], list(xs), {}) for xs in zip(*cols)]

        def sum_(a, k):
            total = a[1] if len(a) > 1 else 0
            for x in it(a[0]):
                total = total + x
            return total

        table = {
            "bool": lambda a, k: self.truth(a[0]) if a else False,
            "any": lambda a, k: any(self.truth(x) for x in it(a[0])),
            "all": lambda a, k: all(self.truth(x) for x in it(a[0])),
            "list": lambda a, k: list(it(a[0])) if a else [],
            "tuple": lambda a, k: tuple(it(a[0])) if a else (),
            "set": lambda a, k: set(it(a[0])) if a else set(),
            "frozenset": lambda a, k: frozenset(it(a[0])) if a else frozenset(),
            "dict": lambda a, k: {**(dict(a[0]) if a and isinstance(a[0], dict) else dict(it(a[0])) if a else {}), **k},
            "len": lambda a, k: len(it(a[0])),
            "enumerate": lambda a, k: list(enumerate(it(a[0]), *(a[1:]), **k)),
            "zip": lambda a, k: list(zip(*[it(x) for x in a])),
            "range": lambda a, k: list(range(*a)),
            "reversed": lambda a, k: list(reversed(it(a[0]))),
            "isinstance": isinstance_, "hasattr": hasattr_, "getattr": getattr_, "setattr": setattr_, "hash": hash_, "super": super_, "map": map_, "sum": sum_,
            "filter": lambda a, k: [x for x in it(a[1]) if (self.truth(x) if a[0] is None else self.truth(self.apply(a[0], [x], {})))],
            "callable": lambda a, k: callable(a[0]) or isinstance(a[0], _FuncRef) or (isinstance(a[0], MObj) and "__call__" in a[0].attrs),
            "str": lambda a, k: str(a[0]) if a else "",
            "repr": lambda a, k: repr(a[0]),
            "id": lambda a, k: id(a[0]),
            "iter": lambda a, k: list(it(a[0])),
        }
        return table.get(name)

    # ------------------------------------------------------------------ calls
    def apply(self, f, args: list, kwargs: dict, depth: int = 0, node=None):
        if isinstance(f, _FuncRef):
            return self.call_function(f, args, kwargs, depth + 1)
        if isinstance(f, tuple) and f and f[0] == "builtin":
            return self._builtin(f[1])(args, kwargs)
        if isinstance(f, MObj) and "__call__" in f.attrs:
            return f.attrs["__call__"](args, kwargs)
        if isinstance(f, MRef):
            ext = self.externals.get(f.name) or self.externals.get(f.name.split(".")[-1].split("::")[-1])
            if ext is not None:
                return ext(args, kwargs)
            raise ModelError(f"call of `{f.name}` has no model" + (f" (`{unparse(node)[:60]}`)" if node is not None else ""))
        if callable(f):
            return f(args, kwargs)
        raise ModelError(f"call of {f!r} has no model" + (f" (`{unparse(node)[:60]}`)" if node is not None else ""))

    def call_function(self, f, args: list, kwargs: dict | None = None, depth: int = 0):
        """Interpret a function of the package (FuncInfo or internal closure) on model arguments."""
        kwargs = dict(kwargs or {})
        ref = f if isinstance(f, _FuncRef) else _FuncRef(f)
        fn, node = ref.fn, ref.node if ref.node is not None else ref.fn.node
        scope = fn if fn is not None else ref.scope
        if fn is not None and self.intercept is not None:
            handled, value = self.intercept(fn, args, kwargs)
            if handled:
                return value
        if depth > self.max_depth:
            raise ModelError(f"call depth exceeded at {fn.qual if fn else '<closure>'}")
        if fn is not None:
            self.entered.append(fn.qual)
        env = dict(ref.env or {})
        env.update(self._bind(node, args, kwargs, scope))
        sig = self.block(node.body, env, scope, depth)
        if sig is not None and sig[0] == "return":
            return sig[1]
        return None

    def _bind(self, node, args: list, kwargs: dict, scope) -> dict:
        a = node.args
        pos = [*a.posonlyargs, *a.args]
        env: dict = {}
        if len(args) > len(pos) and a.vararg is None:
            raise ModelRaise("TypeError", f"{getattr(node, 'name', '<lambda>')}() takes {len(pos)} positional arguments but {len(args)} were given")
        for p, v in zip(pos, args):
            env[p.arg] = v
        if a.vararg is not None:
            env[a.vararg.arg] = tuple(args[len(pos):])
        names = {p.arg for p in [*a.args, *a.kwonlyargs]}
        extra = {}
        for k, v in kwargs.items():
            if k in names:
                if k in env:
                    raise ModelRaise("TypeError", f"multiple values for argument {k}")
                env[k] = v
            elif a.kwarg is not None:
                extra[k] = v
            else:
                raise ModelRaise("TypeError", f"unexpected keyword argument {k}")
        if a.kwarg is not None:
            env[a.kwarg.arg] = extra
        defaults = dict(zip([p.arg for p in pos][len(pos) - len(a.defaults):], a.defaults))
        for p, d in zip(a.kwonlyargs, a.kw_defaults):
            if d is not None:
                defaults[p.arg] = d
        for p in [*pos, *a.kwonlyargs]:
            if p.arg not in env:
                if p.arg not in defaults:
                    raise ModelRaise("TypeError", f"missing argument {p.arg}")
                env[p.arg] = self.ev(defaults[p.arg], {}, scope, 0)
        return env

    # ------------------------------------------------------------------ statements
    def block(self, body: list, env: dict, fn, depth: int):
        for st in body:
            sig = self.stmt(st, env, fn, depth)
            if sig is not None:
                return sig
        return None

    def stmt(self, st: ast.stmt, env: dict, fn, depth: int):  # noqa: C901, PLR0911, PLR0912
        self.steps += 1
        if self.steps > self.max_steps:
            raise ModelError("step budget of the model execution exhausted")
        if isinstance(st, ast.Expr):
            self.ev(st.value, env, fn, depth)
            return None
        if isinstance(st, ast.Assign):
            v = self.ev(st.value, env, fn, depth)
            for t in st.targets:
                self.assign(t, v, env, fn, depth)
            return None
        if isinstance(st, ast.AnnAssign):
            if st.value is not None:
                self.assign(st.target, self.ev(st.value, env, fn, depth), env, fn, depth)
            return None
        if isinstance(st, ast.AugAssign):
            load = ast.copy_location(type(st.target)(**{**{f: getattr(st.target, f) for f in st.target._fields}, "ctx": ast.Load()}), st.target)
            cur = self.ev(load, env, fn, depth)
            rhs = self.ev(st.value, env, fn, depth)
            if isinstance(cur, list) and isinstance(st.op, ast.Add):
                cur.extend(self.iterate(rhs))  # in place, like list.__iadd__
                return None
            self.assign(st.target, self.binop(st.op, cur, rhs, st), env, fn, depth)
            return None
        if isinstance(st, ast.If):
            return self.block(st.body if self.truth(self.ev(st.test, env, fn, depth)) else st.orelse, env, fn, depth)
        if isinstance(st, ast.For):
            broke = False
            for item in self.iterate(self.ev(st.iter, env, fn, depth), st.iter):
                self.assign(st.target, item, env, fn, depth)
                sig = self.block(st.body, env, fn, depth)
                if sig is _SIGNAL_BREAK:
                    broke = True
                    break
                if sig is not None and sig is not _SIGNAL_CONTINUE:
                    return sig
            if not broke and st.orelse:
                return self.block(st.orelse, env, fn, depth)
            return None
        if isinstance(st, ast.While):
            while self.truth(self.ev(st.test, env, fn, depth)):
                self.steps += 1
                if self.steps > self.max_steps:
                    raise ModelError("step budget of the model execution exhausted (while loop)")
                sig = self.block(st.body, env, fn, depth)
                if sig is _SIGNAL_BREAK:
                    return None
                if sig is not None and sig is not _SIGNAL_CONTINUE:
                    return sig
            return self.block(st.orelse, env, fn, depth) if st.orelse else None
        if isinstance(st, ast.Return):
            return ("return", self.ev(st.value, env, fn, depth) if st.value is not None else None)
        if isinstance(st, ast.Break):
            return _SIGNAL_BREAK
        if isinstance(st, ast.Continue):
            return _SIGNAL_CONTINUE
        if isinstance(st, (ast.Pass, ast.Import, ast.ImportFrom, ast.Global, ast.Nonlocal)):
            return None
        if isinstance(st, ast.Raise):
            exc = st.exc.func if isinstance(st.exc, ast.Call) else st.exc
            raise ModelRaise(unparse(exc).split(".")[-1] if exc is not None else "Exception", "raised by the interpreted code")
        if isinstance(st, ast.Assert):
            if not self.truth(self.ev(st.test, env, fn, depth)):
                raise ModelRaise("AssertionError")
            return None
        if isinstance(st, ast.FunctionDef):
            env[st.name] = _FuncRef(None, st, env, fn)
            return None
        if isinstance(st, ast.Try):
            try:
                sig = self.block(st.body, env, fn, depth)
                if sig is None and st.orelse:
                    sig = self.block(st.orelse, env, fn, depth)
            except ModelRaise as exc:
                for h in st.handlers:
                    names = [] if h.type is None else [unparse(e).split(".")[-1] for e in (h.type.elts if isinstance(h.type, ast.Tuple) else [h.type])]
                    if h.type is None or exc.kind in names or "Exception" in names or "BaseException" in names:
                        if h.name:
                            env[h.name] = MObj(f"exception {exc.kind}", kinds={exc.kind}, open=True)
                        sig = self.block(h.body, env, fn, depth)
                        break
                else:
                    if st.finalbody:
                        self.block(st.finalbody, env, fn, depth)
                    raise
            if st.finalbody:
                fsig = self.block(st.finalbody, env, fn, depth)
                if fsig is not None:
                    return fsig
            return sig
        raise ModelError(f"statement {type(st).__name__} (`{unparse(st)[:50]}`) is outside the interpreted subset")

    def assign(self, target, v, env: dict, fn, depth: int) -> None:
        if isinstance(target, ast.Name):
            env[target.id] = v
        elif isinstance(target, (ast.Tuple, ast.List)):
            items = self.iterate(v, target)
            star = [i for i, t in enumerate(target.elts) if isinstance(t, ast.Starred)]
            if not star:
                if len(items) != len(target.elts):
                    raise ModelRaise("ValueError", f"unpacking {len(items)} values into {len(target.elts)} targets")
                for t, x in zip(target.elts, items):
                    self.assign(t, x, env, fn, depth)
            else:
                s = star[0]
                after = len(target.elts) - s - 1
                if len(items) < len(target.elts) - 1:
                    raise ModelRaise("ValueError", "not enough values to unpack")
                for t, x in zip(target.elts[:s], items[:s]):
                    self.assign(t, x, env, fn, depth)
                self.assign(target.elts[s].value, list(items[s: len(items) - after]), env, fn, depth)
                for t, x in zip(target.elts[s + 1:], items[len(items) - after:]):
                    self.assign(t, x, env, fn, depth)
        elif isinstance(target, ast.Subscript):
            base = self.ev(target.value, env, fn, depth)
            if isinstance(target.slice, ast.Slice):
                raise ModelError("slice assignment is outside the interpreted subset")
            idx = self.ev(target.slice, env, fn, depth)
            if isinstance(base, list):
                if not isinstance(idx, int) or isinstance(idx, bool) or not -len(base) <= idx < len(base):
                    raise ModelRaise("IndexError", "list assignment index out of range")
                base[idx] = v
            elif isinstance(base, dict):
                self._hash_check(idx)
                base[idx] = v
            elif isinstance(base, MObj) and "__setitem__" in base.attrs:
                base.attrs["__setitem__"]([idx, v], {})
            elif isinstance(base, tuple):
                raise ModelRaise("TypeError", "'tuple' object does not support item assignment")
            else:
                raise ModelError(f"item assignment on {base!r} has no model")
        elif isinstance(target, ast.Attribute):
            base = self.ev(target.value, env, fn, depth)
            if not isinstance(base, MObj):
                raise ModelError(f"attribute assignment on {base!r} has no model")
            base.attrs[target.attr] = v
        else:
            raise ModelError(f"assignment target {type(target).__name__}")

    # ------------------------------------------------------------------ expressions
    def binop(self, op, a, b, node):
        if isinstance(a, (MObj, MRef)) or isinstance(b, (MObj, MRef)):
            hook = {ast.Add: "__add__", ast.Sub: "__sub__", ast.Mult: "__mul__", ast.Div: "__truediv__", ast.Pow: "__pow__", ast.BitOr: "__or__", ast.BitAnd: "__and__"}.get(type(op))
            if isinstance(a, MObj) and hook in a.attrs:
                return a.attrs[hook]([b], {})
            raise ModelError(f"arithmetic on model objects (`{unparse(node)[:50]}`) has no model")
        try:
            if isinstance(op, ast.Add):
                return a + b
            if isinstance(op, ast.Sub):
                return a - b
            if isinstance(op, ast.Mult):
                return a * b
            if isinstance(op, ast.BitOr):
                return a | b
            if isinstance(op, ast.BitAnd):
                return a & b
            if isinstance(op, ast.BitXor):
                return a ^ b
            if isinstance(op, ast.Mod) and isinstance(a, int):
                return a % b
            if isinstance(op, ast.FloorDiv):
                return a // b
        except TypeError as exc:
            raise ModelRaise("TypeError", str(exc)) from None
        except ZeroDivisionError:
            raise ModelRaise("ZeroDivisionError") from None
        raise ModelError(f"operator {type(op).__name__} is outside the interpreted subset")

    def compare(self, op, a, b, node) -> bool:
        if isinstance(op, ast.Is):
            return a is b or (isinstance(a, MRef) and a == b)
        if isinstance(op, ast.IsNot):
            return not (a is b or (isinstance(a, MRef) and a == b))
        if isinstance(op, ast.In):
            return self.contains(b, a)
        if isinstance(op, ast.NotIn):
            return not self.contains(b, a)
        if isinstance(op, (ast.Eq, ast.NotEq)):
            if isinstance(a, MObj) and "__eq__" in a.attrs:
                same = bool(a.attrs["__eq__"]([b], {}))
            elif isinstance(b, MObj) and "__eq__" in b.attrs:
                same = bool(b.attrs["__eq__"]([a], {}))
            elif isinstance(a, MObj) or isinstance(b, MObj):
                same = a is b
            else:
                same = type(a) is type(b) and a == b or (isinstance(a, (int, bool)) and isinstance(b, (int, bool)) and a == b) or (isinstance(a, (list, tuple)) and type(a) is type(b) and a == b)
            return same if isinstance(op, ast.Eq) else not same
        if isinstance(a, (int, str)) and type(a) is type(b) or (isinstance(a, int) and isinstance(b, int)):
            return {ast.Lt: a < b, ast.LtE: a <= b, ast.Gt: a > b, ast.GtE: a >= b}[type(op)]
        raise ModelError(f"comparison `{unparse(node)[:50]}` has no model")

    def ev(self, node: ast.AST, env: dict, fn, depth: int):  # noqa: C901, PLR0911, PLR0912
        self.steps += 1
        if self.steps > self.max_steps:
            raise ModelError("step budget of the model execution exhausted")
        if isinstance(node, ast.Constant):
            if node.value is Ellipsis:
                raise ModelError("Ellipsis")
            return node.value
        if isinstance(node, ast.Name):
            if node.id in env:
                return env[node.id]
            return self._global(node, fn)
        if isinstance(node, ast.Attribute):
            chain = attr_chain(node)
            if chain and chain.split(".")[0] not in env and fn is not None:
                target = self.tree.resolve(fn.module, node, fn)
                if target:
                    return self._resolved(target)
            return self.getattr(self.ev(node.value, env, fn, depth), node.attr, node)
        if isinstance(node, ast.Call):
            f = self.ev(node.func, env, fn, depth)
            args: list = []
            for a in node.args:
                if isinstance(a, ast.Starred):
                    args.extend(self.iterate(self.ev(a.value, env, fn, depth), a))
                else:
                    args.append(self.ev(a, env, fn, depth))
            kwargs: dict = {}
            for k in node.keywords:
                v = self.ev(k.value, env, fn, depth)
                if k.arg is None:
                    if not isinstance(v, dict):
                        raise ModelError(f"**{unparse(k.value)[:30]} is not a dict in the model")
                    kwargs.update(v)
                else:
                    kwargs[k.arg] = v
            return self.apply(f, args, kwargs, depth, node)
        if isinstance(node, ast.BoolOp):
            v = None
            for e in node.values:
                v = self.ev(e, env, fn, depth)
                if isinstance(node.op, ast.And) and not self.truth(v):
                    return v
                if isinstance(node.op, ast.Or) and self.truth(v):
                    return v
            return v
        if isinstance(node, ast.UnaryOp):
            v = self.ev(node.operand, env, fn, depth)
            if isinstance(node.op, ast.Not):
                return not self.truth(v)
            if isinstance(node.op, ast.USub) and isinstance(v, int):
                return -v
            raise ModelError(f"unary operator in `{unparse(node)[:40]}`")
        if isinstance(node, ast.BinOp):
            return self.binop(node.op, self.ev(node.left, env, fn, depth), self.ev(node.right, env, fn, depth), node)
        if isinstance(node, ast.Compare):
            left = self.ev(node.left, env, fn, depth)
            for op, c in zip(node.ops, node.comparators):
                right = self.ev(c, env, fn, depth)
                if not self.compare(op, left, right, node):
                    return False
                left = right
            return True
        if isinstance(node, ast.IfExp):
            return self.ev(node.body if self.truth(self.ev(node.test, env, fn, depth)) else node.orelse, env, fn, depth)
        if isinstance(node, (ast.Tuple, ast.List, ast.Set)):
            items: list = []
            for e in node.elts:
                if isinstance(e, ast.Starred):
                    items.extend(self.iterate(self.ev(e.value, env, fn, depth), e))
                else:
                    items.append(self.ev(e, env, fn, depth))
            if isinstance(node, ast.Set):
                for x in items:
                    self._hash_check(x)
                return set(items)
            return tuple(items) if isinstance(node, ast.Tuple) else items
        if isinstance(node, ast.Dict):
            out: dict = {}
            for k, v in zip(node.keys, node.values):
                if k is None:
                    out.update(self.ev(v, env, fn, depth))
                else:
                    key = self.ev(k, env, fn, depth)
                    self._hash_check(key)
                    out[key] = self.ev(v, env, fn, depth)
            return out
        if isinstance(node, ast.Subscript):
            base = self.ev(node.value, env, fn, depth)
            if isinstance(node.slice, ast.Slice):
                lo, hi, step = (self.ev(x, env, fn, depth) if x is not None else None for x in (node.slice.lower, node.slice.upper, node.slice.step))
                if isinstance(base, (list, tuple, str)):
                    return base[lo:hi:step]
                raise ModelError("slice of a model object")
            idx = self.ev(node.slice, env, fn, depth)
            if isinstance(base, dict):
                self._hash_check(idx)
                if idx in base:
                    return base[idx]
                raise ModelRaise("KeyError", repr(idx))
            if isinstance(base, (list, tuple, str)):
                if not isinstance(idx, int) or isinstance(idx, bool):
                    raise ModelRaise("TypeError", "indices must be integers")
                if not -len(base) <= idx < len(base):
                    raise ModelRaise("IndexError", "index out of range")
                return base[idx]
            if isinstance(base, MObj) and "__getitem__" in base.attrs:
                return base.attrs["__getitem__"]([idx], {})
            if isinstance(base, MRef):
                return base  # a subscripted type (`tuple[int, ...]`)
            raise ModelError(f"subscript of {base!r} has no model")
        if isinstance(node, (ast.ListComp, ast.GeneratorExp, ast.SetComp, ast.DictComp)):
            # comprehensions are evaluated eagerly: the model callables have no side effects whose order
            # relative to the consumer of a generator could matter (they only record that they were called)
            results: list = []

            def rec(gens, env_):
                if not gens:
                    if isinstance(node, ast.DictComp):
                        results.append((self.ev(node.key, env_, fn, depth), self.ev(node.value, env_, fn, depth)))
                    else:
                        results.append(self.ev(node.elt, env_, fn, depth))
                    return
                g = gens[0]
                for item in self.iterate(self.ev(g.iter, env_, fn, depth), g.iter):
                    env2 = dict(env_)
                    self.assign(g.target, item, env2, fn, depth)
                    if all(self.truth(self.ev(c, env2, fn, depth)) for c in g.ifs):
                        rec(gens[1:], env2)

            rec(list(node.generators), env)
            if isinstance(node, ast.DictComp):
                return dict(results)
            if isinstance(node, ast.SetComp):
                return set(results)
            return results
        if isinstance(node, ast.JoinedStr):
            return "".join(str(v.value) if isinstance(v, ast.Constant) else str(self.ev(v.value, env, fn, depth)) for v in node.values)
        if isinstance(node, ast.NamedExpr):
            v = self.ev(node.value, env, fn, depth)
            self.assign(node.target, v, env, fn, depth)
            return v
        if isinstance(node, ast.Lambda):
            return _FuncRef(None, ast.FunctionDef(name="<lambda>", args=node.args, body=[ast.Return(value=node.body)], decorator_list=[]), env, fn)
        if isinstance(node, ast.Starred):
            raise ModelError("starred expression outside a call or display")
        raise ModelError(f"expression {type(node).__name__} (`{unparse(node)[:50]}`) is outside the interpreted subset")

    def _global(self, node: ast.Name, fn):
        name = node.id
        target = self.tree.resolve(fn.module, node, fn) if fn is not None else None
        if target:
            return self._resolved(target)
        if name in self.externals:
            return self.externals[name]
        if self._builtin(name) is not None or name in {"object", "type", "int", "float"}:
            return ("builtin", name)
        if name in {"True", "False", "None"}:
            return {"True": True, "False": False, "None": None}[name]
        raise ModelError(f"name `{name}` has no model")

    def _resolved(self, target: str):
        if target in self.externals:
            return self.externals[target]
        if target in self.tree.funcs:
            return _FuncRef(self.tree.funcs[target])
        return MRef(target)
