"""Static analysis machinery for the ampform properties C01-C20.

Pure standard library; never imports or executes anything from /repo.
"""
