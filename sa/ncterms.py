"""Non-commutative matrix terms for the K-matrix module (part of E3).

Normal form: a sum of (scalar coefficient, ordered product of factors).  Factors are
matrix symbols or the function atoms ``inv(x)``, ``sqrt(x)``, ``conj(x)`` over a
canonical sub-term.  The identity is the empty product.  ``inv`` of a single product
distributes (reversed); ``inv(inv(x)) = x``.  No commutation is ever assumed, not even
for diagonal matrices.
"""

from __future__ import annotations

import ast
from dataclasses import dataclass
from fractions import Fraction

from .loader import AnalysisError, FuncInfo, Tree, unparse
from .poly import RF, as_rf


class NCError(AnalysisError):
    pass


@dataclass(frozen=True)
class NC:
    terms: tuple  # tuple of (RF-key, RF, factors-tuple) sorted by (factors, key)

    # -- construction ------------------------------------------------------
    @staticmethod
    def make(items) -> "NC":
        acc: dict[tuple, RF] = {}
        for coeff, factors in items:
            acc[factors] = acc[factors] + coeff if factors in acc else coeff
        out = []
        for factors, coeff in acc.items():
            if not coeff.is_zero():
                out.append((repr(coeff.key()), coeff, factors))
        out.sort(key=lambda t: (repr(t[2]), t[0]))
        return NC(tuple(out))

    @staticmethod
    def sym(name: str) -> "NC":
        return NC.make([(RF.const(1), (("sym", name),))])

    @staticmethod
    def eye() -> "NC":
        return NC.make([(RF.const(1), ())])

    @staticmethod
    def scalar(c) -> "NC":
        return NC.make([(as_rf(c), ())])

    def items(self):
        return [(c, f) for _, c, f in self.terms]

    def key(self):
        return tuple((k, f) for k, _, f in self.terms)

    def __eq__(self, o) -> bool:
        return isinstance(o, NC) and self.key() == o.key()

    def __hash__(self) -> int:
        return hash(self.key())

    # -- algebra -------------------------------------------------------------
    def __add__(self, o: "NC") -> "NC":
        return NC.make([*self.items(), *o.items()])

    def __neg__(self) -> "NC":
        return NC.make([(-c, f) for c, f in self.items()])

    def __sub__(self, o: "NC") -> "NC":
        return self + (-o)

    def __mul__(self, o) -> "NC":
        if not isinstance(o, NC):
            o = NC.scalar(o)
        out = []
        for c1, f1 in self.items():
            for c2, f2 in o.items():
                out.append((c1 * c2, _simplify_product(f1 + f2)))
        return NC.make(out)

    def __rmul__(self, o) -> "NC":
        return NC.scalar(o) * self

    def func(self, name: str) -> "NC":
        return NC.make([(RF.const(1), ((name, self.key()),))])

    def inv(self) -> "NC":
        items = self.items()
        if len(items) == 1:
            c, factors = items[0]
            inv_factors = []
            for f in reversed(factors):
                if f[0] == "inv":
                    inner = _REGISTRY.get(f[1])
                    if inner is not None and len(inner.items()) == 1 and inner.items()[0][0].is_const():
                        ic, ifac = inner.items()[0]
                        c = c / ic
                        inv_factors.extend(ifac)
                        continue
                inv_factors.append(_inv_factor(f))
            return NC.make([(RF.const(1) / c, _simplify_product(tuple(inv_factors)))])
        _REGISTRY[self.key()] = self
        return NC.make([(RF.const(1), (("inv", self.key()),))])

    def show(self) -> str:
        if not self.terms:
            return "0"
        parts = []
        for _, c, factors in self.terms:
            fs = "·".join(_show_factor(f) for f in factors) or "1"
            cs = repr(c)
            parts.append(fs if cs == "1" else f"({cs})·{fs}")
        return " + ".join(parts)


_REGISTRY: dict = {}


def _inv_factor(f):
    single = NC.make([(RF.const(1), (f,))])
    _REGISTRY[single.key()] = single
    return ("inv", single.key())


def _simplify_product(factors: tuple) -> tuple:
    """Cancel adjacent x·inv(x) / inv(x)·x pairs."""
    out: list = []
    for f in factors:
        if out:
            prev = out[-1]
            if _is_inverse_pair(prev, f):
                out.pop()
                continue
        out.append(f)
    return tuple(out)


def _is_inverse_pair(a, b) -> bool:
    for x, y in ((a, b), (b, a)):
        if x[0] == "inv":
            inner = _REGISTRY.get(x[1])
            if inner is not None and len(inner.items()) == 1:
                c, fac = inner.items()[0]
                if c.is_const() and c.const_value() == 1 and fac == (y,):
                    return True
    return False


def _show_factor(f) -> str:
    if f[0] == "sym":
        return f[1]
    inner = _REGISTRY.get(f[1])
    return f"{f[0]}({inner.show() if inner is not None else '…'})"


def nc_func(name: str, x: NC) -> NC:
    _REGISTRY[x.key()] = x
    return NC.make([(RF.const(1), ((name, x.key()),))])


# ---------------------------------------------------------------------------- extraction

MATRIX_SOURCES = {
    "ampform.sympy::create_symbol_matrix": lambda call: _const_arg(call, 0, "name"),
    "ampform.dynamics.kmatrix::_create_rho_matrix": lambda call: "rho",
}


def _const_arg(call: ast.Call, pos: int, kw: str) -> str:
    for k in call.keywords:
        if k.arg == kw and isinstance(k.value, ast.Constant):
            return str(k.value.value)
    if len(call.args) > pos and isinstance(call.args[pos], ast.Constant):
        return str(call.args[pos].value)
    raise NCError(f"matrix name is not a literal in `{unparse(call)}`")


def _is_diagonal_builder(tree: Tree, qual: str) -> bool:
    """zeros(n, n) filled only at [i, i] (one index variable) and returned."""
    fn = tree.funcs.get(qual)
    if fn is None:
        return False
    stores = [n for n in ast.walk(fn.node) if isinstance(n, ast.Subscript) and isinstance(n.ctx, ast.Store)]
    if not stores:
        return False
    for st in stores:
        sl = st.slice
        if not (isinstance(sl, ast.Tuple) and len(sl.elts) == 2 and all(isinstance(e, ast.Name) for e in sl.elts) and sl.elts[0].id == sl.elts[1].id):
            return False
    inits = [n for n in ast.walk(fn.node) if isinstance(n, ast.Call) and tree.resolve(fn.module, n.func, fn) == "sympy.zeros"]
    return len(inits) == 1


def _mul_div_factors(node: ast.AST, sign: int = 1) -> list[tuple[ast.AST, int]]:
    if isinstance(node, ast.BinOp) and isinstance(node.op, ast.Mult):
        return _mul_div_factors(node.left, sign) + _mul_div_factors(node.right, sign)
    if isinstance(node, ast.BinOp) and isinstance(node.op, ast.Div):
        return _mul_div_factors(node.left, sign) + _mul_div_factors(node.right, -sign)
    return [(node, sign)]


class NCEval:
    def __init__(self, tree: Tree) -> None:
        self.tree = tree
        self.diagonal: set = set()

    def is_diagonal(self, v: "NC") -> bool:
        items = v.items()
        if len(items) != 1:
            return False
        for f in items[0][1]:
            if f in self.diagonal:
                continue
            if f[0] in {"sqrt", "conj", "inv"}:
                inner = _REGISTRY.get(f[1])
                if inner is not None and self.is_diagonal(inner):
                    continue
            return False
        return True

    def elementwise(self, node: ast.Call, env, fn) -> "NC":
        """sp.Matrix(n, n, lambda i, j: X[i, j] * A[i, i] / B[j, j] ...) with A, B diagonal
        == A · X · B^-1  (a diagonal factor indexed by the row scales from the left, one indexed
        by the column from the right)."""
        lam = node.args[2]
        if not (isinstance(lam, ast.Lambda) and len(lam.args.args) == 2 and unparse(node.args[0]) == unparse(node.args[1])):
            raise NCError(f"element-wise matrix `{unparse(node)[:60]}` is not square / not a two-index lambda")
        i, j = (a.arg for a in lam.args.args)
        left, right, full = [], [], []
        coeff = NC.eye()
        for fac, sign in _mul_div_factors(lam.body):
            if isinstance(fac, ast.Subscript) and isinstance(fac.value, ast.Name) and isinstance(fac.slice, ast.Tuple) and len(fac.slice.elts) == 2:
                idx = tuple(e.id if isinstance(e, ast.Name) else None for e in fac.slice.elts)
                m = self._nc(self.ev(fac.value, env, fn))
                if idx == (i, j):
                    if sign != 1:
                        raise NCError("division by a full matrix element")
                    full.append(m)
                    continue
                if idx in {(i, i), (j, j)}:
                    if not self.is_diagonal(m):
                        raise NCError(f"`{unparse(fac)}`: element [k, k] of a matrix that is not known to be diagonal")
                    (left if idx == (i, i) else right).append(m if sign == 1 else m.inv())
                    continue
                raise NCError(f"element `{unparse(fac)}` is neither [{i}, {j}] nor a diagonal element")
            v = self._nc(self.ev(fac, env, fn))
            if any(f for _, f in v.items()):
                raise NCError(f"factor `{unparse(fac)[:40]}` of an element-wise product is a matrix")
            coeff = coeff * (v if sign == 1 else v.inv())
        if len(full) != 1:
            raise NCError(f"element-wise product with {len(full)} full-matrix factors")
        out = coeff
        for m in sorted(left, key=lambda x: repr(x.key())):
            out = out * m
        out = out * full[0]
        for m in sorted(right, key=lambda x: repr(x.key())):
            out = out * m
        return out

    def run(self, fn: FuncInfo, flags: dict[str, bool]) -> list:
        """Evaluate a straight-line ``_create_matrices`` body; ``if <flag>:`` on a boolean
        parameter is decided by ``flags``.  Returns the list of returned values."""
        env: dict[str, object] = dict(flags)
        for p in fn.params:
            if p not in env and p not in {"self", "cls"}:
                env[p] = ("dim", p)  # a size: only ever an argument of eye() / create_symbol_matrix() / helpers
        return self._block(fn.node.body, env, fn)

    def _block(self, body, env, fn):
        for st in body:
            if isinstance(st, ast.Expr) and isinstance(st.value, ast.Constant):
                continue
            if isinstance(st, (ast.Assign, ast.AnnAssign)):
                value = st.value
                targets = st.targets if isinstance(st, ast.Assign) else [st.target]
                v = self.ev(value, env, fn)
                for t in targets:
                    if isinstance(t, (ast.Tuple, ast.List)) and isinstance(v, list) and len(v) == len(t.elts) and all(isinstance(e, ast.Name) for e in t.elts):
                        for e, x in zip(t.elts, v):
                            env[e.id] = x
                        continue
                    if not isinstance(t, ast.Name) or isinstance(v, list):
                        raise NCError(f"assignment target `{unparse(t)}`")
                    env[t.id] = v
                continue
            if isinstance(st, ast.If):
                test = st.test
                negate = False
                if isinstance(test, ast.UnaryOp) and isinstance(test.op, ast.Not):
                    test, negate = test.operand, True
                if isinstance(test, ast.Name) and isinstance(env.get(test.id), bool):
                    cond = env[test.id] != negate
                    r = self._block(st.body if cond else st.orelse, env, fn)
                    if r is not None:
                        return r
                    continue
                if unparse(st.test) in getattr(self, "assume", {}):
                    r = self._block(st.body if self.assume[unparse(st.test)] else st.orelse, env, fn)
                    if r is not None:
                        return r
                    continue
                raise NCError(f"branch on `{unparse(st.test)}` is not a boolean parameter")
            if isinstance(st, ast.Return):
                if isinstance(st.value, ast.Tuple):
                    return [self.ev(e, env, fn) for e in st.value.elts]
                return [self.ev(st.value, env, fn)]
            raise NCError(f"statement {type(st).__name__} outside the matrix-term grammar")
        return None

    def ev(self, node, env, fn):
        if isinstance(node, ast.Name):
            if node.id in env:
                return env[node.id]
            raise NCError(f"unbound `{node.id}`")
        if isinstance(node, ast.Constant) and isinstance(node.value, (int, float)) and not isinstance(node.value, bool):
            return NC.scalar(Fraction(str(node.value)))
        if isinstance(node, ast.Attribute):
            tgt = self.tree.resolve(fn.module, node, fn)
            if tgt == "sympy.I":
                return NC.scalar(RF.atom("I"))
            if node.attr in {"rows", "cols"} and isinstance(node.value, ast.Name) and isinstance(env.get(node.value.id), NC):
                return ("dim", node.value.id)  # only ever an argument of eye()/zeros()
            if node.attr in {"T", "H"} and not (isinstance(node.value, ast.Name) and node.value.id not in env):
                return nc_func("transpose" if node.attr == "T" else "adjoint", self._nc(self.ev(node.value, env, fn)))
            raise NCError(f"attribute `{unparse(node)}`")
        if isinstance(node, ast.UnaryOp) and isinstance(node.op, ast.USub):
            return -self._nc(self.ev(node.operand, env, fn))
        if isinstance(node, ast.BinOp):
            a, b = self._nc(self.ev(node.left, env, fn)), self._nc(self.ev(node.right, env, fn))
            if isinstance(node.op, (ast.Mult, ast.MatMult)):
                return a * b
            if isinstance(node.op, ast.Add):
                return a + b
            if isinstance(node.op, ast.Sub):
                return a - b
            if isinstance(node.op, ast.Pow) and isinstance(node.right, ast.UnaryOp) and unparse(node.right) == "-1":
                return a.inv()
            raise NCError(f"operator {type(node.op).__name__}")
        if isinstance(node, ast.Call):
            f = node.func
            if isinstance(f, ast.Attribute) and isinstance(f.value, (ast.Name, ast.Call, ast.BinOp, ast.Attribute)):
                # method on a matrix value
                head = f.value
                is_value = not (isinstance(head, ast.Name) and head.id not in env) and self.tree.resolve(fn.module, f, fn) is None
                if is_value or (isinstance(head, ast.Name) and head.id in env):
                    recv = self._nc(self.ev(head, env, fn))
                    if f.attr == "inv" and not node.args:
                        return recv.inv()
                    if f.attr in {"doit", "simplify", "as_mutable", "as_immutable", "copy"}:
                        return recv
                    if f.attr in {"conjugate"}:
                        return nc_func("conj", recv)
                    if f.attr in {"T", "transpose"}:
                        return nc_func("transpose", recv)
                    raise NCError(f"matrix method .{f.attr}()")
            callee = self.tree.resolve(fn.module, f, fn)
            if callee in MATRIX_SOURCES:
                m = NC.sym(MATRIX_SOURCES[callee](node))
                if _is_diagonal_builder(self.tree, callee):
                    self.diagonal.add(m.items()[0][1][0])
                return m
            if callee in {"sympy.Matrix", "sympy.ImmutableMatrix", "sympy.MutableDenseMatrix"} and len(node.args) == 3:
                return self.elementwise(node, env, fn)
            if callee == "sympy.eye":
                return NC.eye()
            if callee == "sympy.sqrt":
                return nc_func("sqrt", self._nc(self.ev(node.args[0], env, fn)))
            if callee == "sympy.conjugate":
                return nc_func("conj", self._nc(self.ev(node.args[0], env, fn)))
            target = self.tree.funcs.get(callee) if callee else None
            if target is not None and getattr(self, "_depth", 0) < 4:
                # helper of the package with a straight-line body: evaluate it on the argument terms
                params = list(target.params)
                if target.cls is not None and params[:1] in (["self"], ["cls"]):
                    params = params[1:]
                if any(isinstance(a, ast.Starred) for a in node.args) or len(node.args) > len(params):
                    raise NCError(f"call `{unparse(node)[:60]}`: argument shape")
                inner = {p: self.ev(a, env, fn) for p, a in zip(params, node.args)}
                for kw in node.keywords:
                    if kw.arg is None or kw.arg not in params:
                        raise NCError(f"call `{unparse(node)[:60]}`: keyword {kw.arg}")
                    inner[kw.arg] = self.ev(kw.value, env, fn)
                defaults = target.node.args.defaults
                for p_, d_ in zip(params[len(params) - len(defaults):], defaults):
                    if p_ not in inner:
                        if isinstance(d_, ast.Constant) and isinstance(d_.value, bool):
                            inner[p_] = d_.value
                        else:
                            inner[p_] = self.ev(d_, {}, target)
                self._depth = getattr(self, "_depth", 0) + 1
                try:
                    res = self._block(target.node.body, inner, target)
                finally:
                    self._depth -= 1
                if res is None or not res:
                    raise NCError(f"helper {target.qual} does not return a matrix term")
                return res[0] if len(res) == 1 else list(res)  # several values: only a tuple assignment can take them
            raise NCError(f"call `{unparse(node)[:60]}` outside the matrix-term grammar")
        raise NCError(f"{type(node).__name__} `{unparse(node)[:50]}`")

    @staticmethod
    def _nc(v) -> NC:
        if isinstance(v, NC):
            return v
        raise NCError(f"matrix term expected, got {type(v).__name__}")
