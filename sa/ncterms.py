"""Non-commutative matrix terms for the K-matrix module (part of E3).

Normal form: a sum of (scalar coefficient, ordered product of factors).  Factors are
matrix symbols or the function atoms ``inv(x)``, ``sqrt(x)``, ``conj(x)`` over a
canonical sub-term.  The identity is the empty product.  ``inv`` of a single product
distributes (reversed); ``inv(inv(x)) = x``.  No commutation is ever assumed, not even
for diagonal matrices.

Extraction (second half of this file): ``MatrixModel`` interprets the matrix-building functions of
the package on model values of SymPy's matrix API - either these terms (generic size) or explicit
matrices (sa/dense.py, concrete size) - through the model executor (sa/pyexec.py / sa/rules.py), so
the rules read what a function computes, not how it is spelled.  ``NCEval`` is the generic-size
front end.
"""

from __future__ import annotations

import ast
from dataclasses import dataclass
from fractions import Fraction

from .loader import AnalysisError, FuncInfo, Tree, unparse
from .poly import RF, as_rf


class NCError(AnalysisError):
    pass


@dataclass(frozen=True)
class NC:
    terms: tuple  # tuple of (RF-key, RF, factors-tuple) sorted by (factors, key)

    # -- construction ------------------------------------------------------
    @staticmethod
    def make(items) -> "NC":
        acc: dict[tuple, RF] = {}
        for coeff, factors in items:
            acc[factors] = acc[factors] + coeff if factors in acc else coeff
        out = []
        for factors, coeff in acc.items():
            if not coeff.is_zero():
                out.append((repr(coeff.key()), coeff, factors))
        out.sort(key=lambda t: (repr(t[2]), t[0]))
        return NC(tuple(out))

    @staticmethod
    def sym(name: str) -> "NC":
        return NC.make([(RF.const(1), (("sym", name),))])

    @staticmethod
    def eye() -> "NC":
        return NC.make([(RF.const(1), ())])

    @staticmethod
    def scalar(c) -> "NC":
        return NC.make([(as_rf(c), ())])

    def items(self):
        return [(c, f) for _, c, f in self.terms]

    def key(self):
        return tuple((k, f) for k, _, f in self.terms)

    def __eq__(self, o) -> bool:
        return isinstance(o, NC) and self.key() == o.key()

    def __hash__(self) -> int:
        return hash(self.key())

    # -- algebra -------------------------------------------------------------
    def __add__(self, o: "NC") -> "NC":
        return NC.make([*self.items(), *o.items()])

    def __neg__(self) -> "NC":
        return NC.make([(-c, f) for c, f in self.items()])

    def __sub__(self, o: "NC") -> "NC":
        return self + (-o)

    def __mul__(self, o) -> "NC":
        if not isinstance(o, NC):
            o = NC.scalar(o)
        out = []
        for c1, f1 in self.items():
            for c2, f2 in o.items():
                out.append((c1 * c2, _simplify_product(f1 + f2)))
        return NC.make(out)

    def __rmul__(self, o) -> "NC":
        return NC.scalar(o) * self

    def func(self, name: str) -> "NC":
        return NC.make([(RF.const(1), ((name, self.key()),))])

    def inv(self) -> "NC":
        items = self.items()
        if len(items) == 1:
            c, factors = items[0]
            inv_factors = []
            for f in reversed(factors):
                if f[0] == "inv":
                    inner = _REGISTRY.get(f[1])
                    if inner is not None and len(inner.items()) == 1 and inner.items()[0][0].is_const():
                        ic, ifac = inner.items()[0]
                        c = c / ic
                        inv_factors.extend(ifac)
                        continue
                inv_factors.append(_inv_factor(f))
            return NC.make([(RF.const(1) / c, _simplify_product(tuple(inv_factors)))])
        _REGISTRY[self.key()] = self
        return NC.make([(RF.const(1), (("inv", self.key()),))])

    def show(self) -> str:
        if not self.terms:
            return "0"
        parts = []
        for _, c, factors in self.terms:
            fs = "·".join(_show_factor(f) for f in factors) or "1"
            cs = repr(c)
            parts.append(fs if cs == "1" else f"({cs})·{fs}")
        return " + ".join(parts)


_REGISTRY: dict = {}


def _inv_factor(f):
    single = NC.make([(RF.const(1), (f,))])
    _REGISTRY[single.key()] = single
    return ("inv", single.key())


def _simplify_product(factors: tuple) -> tuple:
    """Cancel adjacent x·inv(x) / inv(x)·x pairs."""
    out: list = []
    for f in factors:
        if out:
            prev = out[-1]
            if _is_inverse_pair(prev, f):
                out.pop()
                continue
        out.append(f)
    return tuple(out)


def _is_inverse_pair(a, b) -> bool:
    for x, y in ((a, b), (b, a)):
        if x[0] == "inv":
            inner = _REGISTRY.get(x[1])
            if inner is not None and len(inner.items()) == 1:
                c, fac = inner.items()[0]
                if c.is_const() and c.const_value() == 1 and fac == (y,):
                    return True
    return False


def _show_factor(f) -> str:
    if f[0] == "sym":
        return f[1]
    inner = _REGISTRY.get(f[1])
    return f"{f[0]}({inner.show() if inner is not None else '…'})"


def nc_func(name: str, x: NC) -> NC:
    _REGISTRY[x.key()] = x
    return NC.make([(RF.const(1), ((name, x.key()),))])


def inverted_symbols(v: NC, _seen: set | None = None) -> set:
    """Names of the matrix symbols whose bare inverse ``inv(S)`` occurs somewhere in the term."""
    seen = _seen if _seen is not None else set()
    out: set = set()
    for _, factors in v.items():
        for f in factors:
            if f[0] == "sym" or f in seen:
                continue
            seen.add(f)
            inner = _REGISTRY.get(f[1])
            if inner is None:
                continue
            if f[0] == "inv" and len(inner.items()) == 1 and len(inner.items()[0][1]) == 1 and inner.items()[0][1][0][0] == "sym":
                out.add(inner.items()[0][1][0][1])
            out |= inverted_symbols(inner, seen)
    return out


# ---------------------------------------------------------------------------- extraction
#
# The matrix-building functions of the package (``_create_matrices``, ``formulate``, their helpers) are
# not pattern-matched: they are INTERPRETED, statement by statement, by the model executor of
# sa/rules.py (``ModelExec``: assignments, unpacking, branches, loops, comprehensions, closures, lambdas,
# helper functions and methods of the package, keyword / positional / ``*`` / ``**`` arguments, walrus,
# try/except ...) on MODEL VALUES of SymPy's matrix API that this file supplies.  Nothing of the package
# or of SymPy is imported or run.  Two value domains:
#
# * ``nc``    - a size parameter is a symbolic dimension ``n``; ``create_symbol_matrix("K", n, n)`` is the
#               non-commutative symbol ``K``; ``sp.eye`` the identity; ``*``, ``@``, ``+``, ``-``,
#               ``.inv()``, ``**-1``, ``sp.sqrt``, ``sp.conjugate``, ``.T``, ``.H`` ... build the normal
#               form above, so the result holds for EVERY number of channels.  ``range(n)`` is one generic
#               index: ``sp.zeros(n, n)`` filled at ``[i, i]`` with ``Symbol(f"rho{i}")`` (or ``sp.diag`` of
#               such a family) is the diagonal symbol ``rho``; ``Matrix(n, n, lambda i, j: X[i, j] * A[i, i]
#               / B[j, j])`` with diagonal A, B is ``A X B^-1``.  A test ``n == 2`` on a dimension is False
#               on the generic path and recorded in ``special`` (the caller decides that size densely).
# * ``dense`` - sizes are concrete integers, matrices are explicit grids of rational functions
#               (sa/dense.py ``Mat``), scalars are ``RF``; ``x.xreplace({...})`` / ``.subs`` are RECORDED on
#               the value (``substitutions``), not performed; calls of the functions named in ``opaque``
#               (``parametrization``) are not entered: they become atoms whose bound arguments are kept in
#               ``params``.  This decides closed forms for one size entry by entry, gives counter-models
#               for a generic term that is not in the accepted list, and shows what ``formulate``
#               substitutes for which matrix element.
#
# Whatever has no model (an unknown SymPy function, arithmetic on a dimension, the truth value of a
# symbolic term, ...) is a ModelError: the caller cannot decide (exit 2), never a verdict.

GENERIC = "#"


class _Attrs(dict):
    """Attribute table of a model value; ``lazy`` entries are computed when read (``x.T``, ``x.rows``)."""

    def __init__(self, lazy: dict | None = None) -> None:
        super().__init__()
        self.lazy = dict(lazy or {})

    def __contains__(self, k) -> bool:
        return dict.__contains__(self, k) or k in self.lazy

    def __getitem__(self, k):
        if dict.__contains__(self, k):
            return dict.__getitem__(self, k)
        if k in self.lazy:
            return self.lazy[k]()
        raise KeyError(k)

    def get(self, k, default=None):
        return self[k] if k in self else default


@dataclass
class _Elem:
    """nc domain: ``coeff * prod m[r, c]**sign`` of matrix elements at generic indices."""

    coeff: RF
    factors: tuple  # of (NC, row index object, column index object, sign)


class _Builder:
    """nc domain: ``sp.zeros(n, n)`` that is being filled by item assignment."""

    def __init__(self, rows, cols) -> None:
        self.rows, self.cols = rows, cols
        self.entries: list = []


def conj_rf(x: RF) -> RF:
    """Complex conjugate of a scalar term: a ring homomorphism with conj(I) = -I, conj(conj(a)) = a; every
    other atom a (symbols may be complex, roots have a branch cut) becomes the atom ("conj", a)."""

    def atom(a) -> RF:
        if a == "I":
            return -RF.atom("I")
        if isinstance(a, tuple) and len(a) == 2 and a[0] == "conj":
            return RF.atom(a[1])
        return RF.atom(("conj", a))

    def poly(p) -> RF:
        out = RF.const(0)
        for mono, c in p.t.items():
            term = RF.const(c)
            for a, e in mono:
                term = term * atom(a) ** e
            out = out + term
        return out

    x = x.normalized()
    return poly(x.n) / poly(x.d)


class MatrixModel:
    """Model execution of matrix-building package functions (see the notes above)."""

    SYMBOL_MATRIX = "ampform.sympy::create_symbol_matrix"

    def __init__(self, tree: Tree, mode: str = "nc", assume: dict | None = None, opaque: tuple = ("parametrization",)) -> None:
        try:  # the interpreter of ordinary Python over model worlds (generators, with, memoised functions, stdlib models)
            from .pyexec import PyExec as ModelExec
        except ImportError:  # pragma: no cover - the smaller interpreter it grew out of
            from .rules import ModelExec

        if mode not in {"nc", "dense"}:
            raise ValueError(mode)
        self.tree, self.mode = tree, mode
        self.assume = dict(assume or {})  # (dimension label, size) -> outcome of the test `n == size`
        self.special: dict = {}  # size tests on a symbolic dimension that were met
        self.diagonal: set = set()  # nc factors known to be diagonal matrices
        self.opaque = set(opaque)
        self.params: dict = {}  # atom -> (qualname, {parameter: model value}) of a call that was not entered
        self.calls: dict = {}  # atom -> (label, args, kwargs) of a call of an opaque callable
        self.symbols: dict = {}  # atom -> (name, assumptions)
        self.constructed: list = []  # (kind, name, assumptions) of every Symbol / IndexedBase the interpreted code builds
        self.symbol_matrices: dict = {}  # name -> value
        self.mutations: list = []  # dense: item assignments into matrices (text)
        self._unequal: set = set()  # pairs of generic indices that stand for different values
        self._class_objects: dict = {}
        self.ex = ModelExec(tree, externals=self._externals(), intercept=self._intercept)
        for q, c in tree.classes.items():
            ctor = self._record_ctor(c)
            if ctor is not None:
                self.ex.externals.setdefault(q, ctor)

    # ------------------------------------------------------------------ entry points
    def call(self, fn: FuncInfo, args: list | None = None, kwargs: dict | None = None):
        from .rules import ModelError, ModelRaise

        try:
            return self.ex.call_function(fn, list(args or []), dict(kwargs or {}))
        except ModelRaise as exc:
            raise ModelError(f"{fn.qual}: the interpreted code raises {exc} for the model arguments") from None
        except RecursionError:
            raise ModelError(f"recursion too deep while interpreting {fn.qual}") from None
        except (TypeError, ValueError, KeyError, IndexError, AttributeError) as exc:  # a gap of the interpreter must never look like a verdict
            raise ModelError(f"the model interpreter failed inside {fn.qual}: {type(exc).__name__}: {exc}") from exc

    def results(self, r) -> list:
        """The returned value as a list of domain values (a tuple / list / named tuple is its elements)."""
        from .rules import MObj

        if isinstance(r, (tuple, list)):
            return [self.value(x) for x in r]
        if isinstance(r, MObj) and "__value__" not in r.attrs and "__iter__" in r.attrs:
            return [self.value(x) for x in r.attrs["__iter__"]([], {})]
        if isinstance(r, MObj) and "__value__" not in r.attrs and "__fields__" in r.attrs:
            return [self.value(r.attrs[n]) for n in r.attrs["__fields__"]]
        if isinstance(r, dict):
            return [self.value(x) for x in r.values()]
        return [self.value(r)]

    def dim(self, label: str):
        """A symbolic size (nc domain)."""
        from .rules import MObj, ModelError

        o = MObj(label, kinds={"dim"}, open=True)

        def eq(a, k):
            other = a[0]
            if other is o:
                return True
            if isinstance(other, int) and not isinstance(other, bool):
                self.special[(label, other)] = True
                return bool(self.assume.get((label, other), False))
            raise ModelError(f"comparison of the size `{label}` with {other!r} cannot be decided for a generic size")

        def undecided(a, k):
            raise ModelError(f"the truth value of the size `{label}` is not determined for a generic size")

        def order(name, decided):
            def run(a, k):
                other = a[0]
                if isinstance(other, int) and not isinstance(other, bool) and decided(other) is not None:
                    return decided(other)  # a size is an integer >= 1
                raise ModelError(f"`{label} {name} {other!r}` cannot be decided for a generic size")

            return run

        o.attrs.update({"__eq__": eq, "__bool__": undecided, "__key__": ("dim", label), "__str__": lambda a, k: f"<{label}>",
                        "__lt__": order("<", lambda c: False if c <= 1 else None), "__le__": order("<=", lambda c: False if c <= 0 else None),
                        "__gt__": order(">", lambda c: True if c <= 0 else None), "__ge__": order(">=", lambda c: True if c <= 1 else None)})
        o.kinds |= {"int"}
        return o

    def class_object(self, cls_qual: str):
        """The class object handed to a classmethod as ``cls``: its methods, looked up through the MRO."""
        from .rules import MObj, _FuncRef

        if cls_qual in self._class_objects:
            return self._class_objects[cls_qual]
        info = self.tree.cls(cls_qual)
        o = self._class_objects[cls_qual] = MObj(f"class {info.name}", kinds={"class"}, open=False)
        o.attrs["__key__"] = ("class", cls_qual)
        o.attrs["__name__"] = info.name
        ctor = self._record_ctor(info)
        if ctor is not None:
            o.attrs["__call__"] = ctor
        for c in reversed(self.tree.mro(info)):
            for name, m in c.methods.items():
                decos = {unparse(d) for d in m.node.decorator_list}
                if "staticmethod" in decos:
                    o.attrs[name] = _FuncRef(m)
                elif "classmethod" in decos:
                    o.attrs[name] = (lambda m_: lambda a, k: self.ex.call_function(m_, [o, *a], k))(m)
                else:
                    o.attrs[name] = _FuncRef(m)  # a plain function looked up on the class: unbound
        return o

    def opaque_callable(self, label: str):
        """A callable argument (a phase-space factor class): calling it gives an atom that records the arguments."""
        from .rules import MObj

        o = MObj(label, kinds={"callable", "class"}, open=False)

        def call(a, k):
            atom = ("call", label, tuple(self.key(x) for x in a), tuple(sorted((n, self.key(v)) for n, v in k.items())))
            self.calls[atom] = (label, list(a), dict(k))
            return self.wrap(RF.atom(atom))

        o.attrs.update({"__call__": call, "__key__": ("callable", label), "__name__": label})
        return o

    # ------------------------------------------------------------------ values
    def wrap(self, v, shape=None, subst: tuple = ()):
        from .rules import MObj

        kind = "scalar" if isinstance(v, (RF, _Elem)) else "matrix"
        o = MObj(kind, kinds={kind, "sympy"}, open=True)
        o.attrs = _Attrs(self._lazy(o))
        o.attrs.update(self._methods(o))
        o.attrs["__value__"] = v
        o.attrs["__shape__"] = shape
        o.attrs["__subst__"] = tuple(subst)
        if isinstance(v, RF):
            a = _single_atom(v)
            if isinstance(a, tuple) and a and a[0] == "sym":
                o.label = a[1]  # an f-string over a symbol prints its name
                o.attrs["__str__"] = lambda a_, k_, name=a[1]: name
                o.attrs["name"] = a[1]
            o.kinds |= {"Expr", "Basic"}
        else:
            o.kinds |= {"MatrixBase", "Matrix", "MutableDenseMatrix", "DenseMatrix", "MutableMatrix", "MatrixCommon", "Basic"}
        return o

    def value(self, x):
        from .rules import MObj, ModelError

        if isinstance(x, MObj) and "__value__" in x.attrs:
            v = x.attrs["__value__"]
            return self._finalise(v) if isinstance(v, _Builder) else v
        if isinstance(x, bool):
            raise ModelError("a bool used as a number")
        if isinstance(x, (int, Fraction)):
            return RF.const(x)
        if isinstance(x, float):
            return RF.const(Fraction(str(x)))
        raise ModelError(f"{x!r} is not a matrix / scalar value of the model")

    def key(self, x):
        """A hashable description of a model value (for the argument tables)."""
        from .rules import MObj, MRef

        if isinstance(x, MObj):
            if "__value__" in x.attrs:
                v = self.value(x)
                if isinstance(v, (RF, NC)):
                    return v.key() if isinstance(v, NC) else ("rf", repr(v.normalized().key()))
                return ("mat", id(x))
            if "__key__" in x.attrs:
                return x.attrs["__key__"]
            return ("obj", x.label, id(x))
        if isinstance(x, MRef):
            return ("ref", x.name)
        if isinstance(x, (tuple, list)):
            return tuple(self.key(y) for y in x)
        if isinstance(x, dict):
            return tuple((self.key(k), self.key(v)) for k, v in x.items())
        return x

    def shape_of(self, x):
        from .rules import MObj

        if isinstance(x, MObj) and "__value__" in x.attrs:
            v = x.attrs["__value__"]
            if isinstance(v, _Builder):
                return (v.rows, v.cols)
            if self.mode == "dense" and not isinstance(v, (RF, NC, _Elem)):
                return (v.n, v.m)
            return x.attrs["__shape__"]
        return None

    def is_diagonal(self, v) -> bool:
        if not isinstance(v, NC):
            return False
        items = v.items()
        if len(items) != 1:
            return False
        for f in items[0][1]:
            if f in self.diagonal:
                continue
            if f[0] in {"sqrt", "conj", "inv", "transpose", "adjoint"}:
                inner = _REGISTRY.get(f[1])
                if inner is not None and self.is_diagonal(inner):
                    continue
            return False
        return True

    # ------------------------------------------------------------------ attributes and methods of a value
    def _lazy(self, o) -> dict:
        from .rules import ModelError

        def dims(i):
            def get():
                sh = self.shape_of(o)
                if sh is None or sh[i] is None:
                    raise ModelError("the shape of this matrix term is not known")
                return sh[i]

            return get

        def shape():
            sh = self.shape_of(o)
            if sh is None or None in sh:
                raise ModelError("the shape of this matrix term is not known")
            return tuple(sh)

        def is_square():
            r, c = shape()
            return r is c or (isinstance(r, int) and isinstance(c, int) and r == c)

        return {
            "T": lambda: self.func("transpose", o), "H": lambda: self.func("adjoint", o), "C": lambda: self.func("conj", o),
            "rows": dims(0), "cols": dims(1), "shape": shape, "is_square": is_square,
            "is_Matrix": lambda: not isinstance(o.attrs["__value__"], (RF, _Elem)),
        }

    def _methods(self, o) -> dict:
        from .rules import ModelError

        def same(a, k):
            return o

        def undecided(a, k):
            if not isinstance(o.attrs["__value__"], (RF, _Elem)):
                return True  # a matrix with at least one element is true (len(m) > 0)
            raise ModelError("the truth value of a symbolic term is not determined")

        def inv(a, k):
            return self.inverse(o)

        def applyfunc(a, k):
            return self.applyfunc(a[0], o)

        def multiply(a, k):
            return self.arith("*", o, a[0])

        def dense_only(name):
            def run(a, k):
                v = self.value(o)
                if self.mode != "dense" or isinstance(v, (RF, NC, _Elem)):
                    raise ModelError(f"matrix method .{name}() has a model only for explicit matrices")
                r = getattr(v, name)()
                return self.wrap(r, subst=o.attrs["__subst__"])

            return run

        table = {
            "__add__": lambda a, k: self.arith("+", o, a[0]), "__radd__": lambda a, k: self.arith("+", a[0], o),
            "__sub__": lambda a, k: self.arith("-", o, a[0]), "__rsub__": lambda a, k: self.arith("-", a[0], o),
            "__mul__": lambda a, k: self.arith("*", o, a[0]), "__rmul__": lambda a, k: self.arith("*", a[0], o),
            "__matmul__": lambda a, k: self.arith("@", o, a[0]), "__rmatmul__": lambda a, k: self.arith("@", a[0], o),
            "__truediv__": lambda a, k: self.arith("/", o, a[0]), "__rtruediv__": lambda a, k: self.arith("/", a[0], o),
            "__pow__": lambda a, k: self.arith("**", o, a[0]),
            "__neg__": lambda a, k: self.arith("*", -1, o),
            "__bool__": undecided,
            "__getitem__": lambda a, k: self.getitem(o, a[0]),
            "__iter__": lambda a, k: self.elements(o), "__len__": lambda a, k: len(self.elements(o)),
            "__setitem__": lambda a, k: self.setitem(o, a[0], a[1]),
            "inv": inv, "inverse": inv, "inverse_ADJ": inv, "inverse_GE": inv, "inverse_LU": inv, "inverse_CH": inv, "inverse_LDL": inv, "inverse_QR": inv,
            "doit": same, "simplify": same, "expand": same, "as_mutable": same, "as_immutable": same, "copy": same, "as_explicit": same, "evalf": None,
            "conjugate": lambda a, k: self.func("conj", o), "transpose": lambda a, k: self.func("transpose", o), "adjoint": lambda a, k: self.func("adjoint", o),
            "applyfunc": applyfunc, "multiply": multiply,
            "xreplace": lambda a, k: self.substitute(o, a, k), "subs": lambda a, k: self.substitute(o, a, k),
            "trace": dense_only("trace"), "det": dense_only("det"), "adjugate": dense_only("adjugate"),
        }
        return {n: f for n, f in table.items() if f is not None}

    # ------------------------------------------------------------------ algebra
    def _subst_of(self, x) -> tuple:
        from .rules import MObj

        return x.attrs["__subst__"] if isinstance(x, MObj) and "__subst__" in x.attrs else ()

    def _merged_subst(self, a, b) -> tuple:
        """Algebra on a value that carries recorded substitutions: sound only if the other operand holds none
        of the substituted symbols (substitution is a homomorphism)."""
        from .rules import ModelError

        sa, sb = self._subst_of(a), self._subst_of(b)
        if not sa and not sb:
            return ()
        for mine, other in ((sa, b), (sb, a)):
            if mine and not self._subst_of(other):
                keys = {k for k, _ in mine}
                if keys & self._atoms(self.value(other)):
                    raise ModelError("algebra between a substituted and an unsubstituted term that share symbols")
        return (*sa, *[p for p in sb if p not in sa])

    def _atoms(self, v) -> set:
        if isinstance(v, RF):
            return set(v.atoms())
        if isinstance(v, NC):
            return set()
        if isinstance(v, _Elem):
            return set(v.coeff.atoms())
        out: set = set()
        for r in v.rows:
            for x in r:
                out |= x.atoms()
        return out

    def arith(self, op: str, a, b):
        from .rules import ModelError

        va, vb = self.value(a), self.value(b)
        subst = self._merged_subst(a, b)
        sa, sb = self.shape_of(a), self.shape_of(b)
        try:
            v, shape = self._arith(op, va, vb, sa, sb)
        except ZeroDivisionError:
            raise ModelError(f"division by zero in the model of `{op}`") from None
        return self.wrap(v, shape, subst)

    def _arith(self, op, va, vb, sa, sb):  # noqa: C901, PLR0911, PLR0912
        from .rules import ModelError

        if isinstance(va, _Elem) or isinstance(vb, _Elem):
            return self._elem_arith(op, va, vb), None
        if op == "**":
            return self._power(va, vb, sa)
        if isinstance(va, RF) and isinstance(vb, RF):
            if op == "@":
                raise ModelError("`@` between scalars")
            return {"+": lambda: va + vb, "-": lambda: va - vb, "*": lambda: va * vb, "/": lambda: va / vb}[op](), None
        if isinstance(va, NC) or isinstance(vb, NC):
            if not all(isinstance(x, (NC, RF)) for x in (va, vb)):
                raise ModelError("a matrix term and an explicit matrix in one expression")
            if op in {"+", "-"}:
                if isinstance(va, RF) or isinstance(vb, RF):
                    raise ModelError("adds a scalar and a matrix (SymPy raises)")
                return (va + vb if op == "+" else va - vb), (sa or sb)
            if op in {"*", "@"}:
                if op == "@" and (isinstance(va, RF) or isinstance(vb, RF)):
                    raise ModelError("`@` between a scalar and a matrix")
                x, y = self._nc(va), self._nc(vb)
                shape = sb if isinstance(va, RF) else sa if isinstance(vb, RF) else ((sa[0] if sa else None), (sb[1] if sb else None))
                return x * y, shape
            if op == "/":
                if not isinstance(vb, RF):
                    raise ModelError("division by a matrix")
                return va * NC.scalar(RF.const(1) / vb), sa
            raise ModelError(f"operator {op} on matrix terms")
        # explicit matrices
        from .dense import DenseError, Mat

        try:
            if op in {"+", "-"}:
                if isinstance(va, Mat) != isinstance(vb, Mat):
                    raise ModelError("adds a scalar and a matrix (SymPy raises)")
                return (va + vb if op == "+" else va - vb), None
            if op in {"*", "@"}:
                if isinstance(va, Mat) and isinstance(vb, Mat):
                    return va.matmul(vb), None
                if op == "@":
                    raise ModelError("`@` between a scalar and a matrix")
                if isinstance(va, Mat):
                    return va.map(lambda x: x * vb), None
                return vb.map(lambda x: va * x), None
            if op == "/":
                if isinstance(vb, Mat):
                    raise ModelError("division by a matrix")
                return va.map(lambda x: x / vb), None
        except DenseError as exc:
            raise ModelError(str(exc)) from None
        raise ModelError(f"operator {op} on explicit matrices")

    @staticmethod
    def _nc(v) -> NC:
        return v if isinstance(v, NC) else NC.scalar(v)

    def _power(self, va, vb, sa):
        from .rules import ModelError

        if not (isinstance(vb, RF) and vb.is_const()):
            if isinstance(va, RF) and isinstance(vb, RF):
                return va**vb, None
            raise ModelError("power with a symbolic exponent")
        e = vb.const_value()
        if isinstance(va, RF):
            return va**e, None
        if e.denominator == 1:
            e = int(e)
            if isinstance(va, NC):
                base = va if e >= 0 else va.inv()
                out = NC.eye()
                for _ in range(abs(e)):
                    out = out * base
                return out, sa
            from .dense import DenseError, Mat

            try:
                base = va if e >= 0 else va.inv()
                out = Mat.eye(va.n)
                for _ in range(abs(e)):
                    out = out.matmul(base)
                return out, None
            except DenseError as exc:
                raise ModelError(str(exc)) from None
        if e == Fraction(1, 2):
            return self._func_value("sqrt", va), sa
        raise ModelError(f"matrix power {e}")

    def inverse(self, o):
        from .rules import ModelError

        v = self.value(o)
        if isinstance(v, RF):
            return self.arith("/", 1, o)
        if isinstance(v, NC):
            return self.wrap(v.inv(), self.shape_of(o), self._subst_of(o))
        if isinstance(v, _Elem):
            raise ModelError("inverse of a matrix element")
        from .dense import DenseError

        try:
            return self.wrap(v.inv(), subst=self._subst_of(o))
        except DenseError as exc:
            raise ModelError(str(exc)) from None

    def func(self, name: str, o):
        return self.wrap(self._func_value(name, self.value(o)), self.shape_of(o) if name in {"sqrt", "conj"} else _swap(self.shape_of(o)), self._subst_of(o))

    def _func_value(self, name: str, v):
        from .rules import ModelError

        if isinstance(v, _Elem):
            # f(m[i, j]) element by element is the element [i, j] of f(m): for the conjugate of any matrix, for the
            # square root of a diagonal one (its zeros stay zeros)
            if len(v.factors) == 1 and v.factors[0][3] == 1 and v.coeff.is_const() and v.coeff.const_value() == 1:
                mat, r, c, _ = v.factors[0]
                if name == "conj" or (name == "sqrt" and self.is_diagonal(mat)):
                    return _Elem(v.coeff, ((nc_func(name, mat), r, c, 1),))
            raise ModelError(f"{name} of a matrix element at generic indices")
        if isinstance(v, RF):
            if name == "sqrt":
                return v ** Fraction(1, 2)
            if name in {"conj", "adjoint"}:
                return conj_rf(v)
            return v  # transpose of a scalar
        if isinstance(v, NC):
            if name in {"transpose", "adjoint"} and self.is_diagonal(v):
                return v if name == "transpose" else nc_func("conj", v)
            if name == "sqrt" and not self.is_diagonal(v):
                raise ModelError("square root of a matrix term that is not known to be diagonal")
            return nc_func(name, v)
        from .dense import Mat

        if name == "transpose":
            return v.T()
        if name == "conj":
            return v.map(conj_rf)
        if name == "adjoint":
            return v.T().map(conj_rf)
        if name == "sqrt":
            if any(not x.is_zero() for i, r in enumerate(v.rows) for j, x in enumerate(r) if i != j):
                raise ModelError("square root of an explicit matrix that is not diagonal")
            return Mat([[x ** Fraction(1, 2) if i == j else x for j, x in enumerate(r)] for i, r in enumerate(v.rows)])
        raise ModelError(f"function {name}")

    def applyfunc(self, f, o):
        """``m.applyfunc(f)``: element-wise; on a diagonal nc term only for the functions that keep 0 at 0."""
        from .rules import MRef, ModelError

        v = self.value(o)
        if f is self._identity:
            return o
        name = None
        for n in ("sqrt", "conj"):
            if f is self.ex.externals.get("sympy." + {"sqrt": "sqrt", "conj": "conjugate"}[n]):
                name = n
        if isinstance(v, (NC, RF)):
            if name is None:
                raise ModelError(f"applyfunc({f!r}) on a matrix term")
            if isinstance(v, NC) and name == "sqrt" and not self.is_diagonal(v):
                raise ModelError("element-wise square root of a matrix term that is not known to be diagonal")
            return self.func(name, o)
        from .dense import Mat

        if isinstance(f, MRef):
            raise ModelError(f"applyfunc({f.name}) has no model")
        # entry by entry; an entry carries the substitutions recorded on the matrix, and what ``f`` records on the entries
        # (``operator.methodcaller("xreplace", rules)``, ``lambda x: x.xreplace(rules)``: the definition of Matrix.xreplace)
        # is recorded on the new matrix if it is the same for every entry
        before = self._subst_of(o)
        images = [[self.ex.apply(f, [self.wrap(x, subst=before)], {}) for x in r] for r in v.rows]
        from .rules import MObj

        recorded = [self._subst_of(y) if isinstance(y, MObj) and "__subst__" in y.attrs else before for r in images for y in r]
        after = recorded[0] if recorded else before
        if any(len(x) != len(after) or any(p[0] != q[0] or p[1] != q[1] for p, q in zip(x, after)) for x in recorded[1:]):
            raise ModelError("applyfunc: the function substitutes different symbols in different entries of the matrix")
        if len(after) < len(before) or any(p[0] != q[0] or p[1] is not q[1] and p[1] != q[1] for p, q in zip(after, before)):
            raise ModelError("applyfunc: the entries lose substitutions that were recorded on the matrix")
        return self.wrap(Mat([[self.value(y) for y in r] for r in images]), subst=after)

    # ------------------------------------------------------------------ items
    def _index(self, idx):
        from .rules import MObj

        if isinstance(idx, MObj) and "__value__" in idx.attrs:
            v = self.value(idx)
            if isinstance(v, RF) and v.is_const() and v.const_value().denominator == 1:
                return int(v.const_value())
        return idx

    def getitem(self, o, idx):
        from .rules import MObj, ModelError

        v = self.value(o)
        if isinstance(idx, tuple):
            idx = tuple(self._index(i) for i in idx)
        else:
            idx = self._index(idx)
        if isinstance(v, NC):
            if isinstance(idx, tuple) and len(idx) == 2 and all(isinstance(i, MObj) and "index" in i.kinds for i in idx):
                return self.wrap(_Elem(RF.const(1), ((v, idx[0], idx[1], 1),)))
            raise ModelError("an element of a matrix term at indices that are not generic loop indices")
        if isinstance(v, (RF, _Elem)):
            raise ModelError("subscript of a scalar")
        if isinstance(idx, int) and not isinstance(idx, bool):
            n = v.n * v.m
            if not -n <= idx < n:
                raise ModelError("matrix index out of range")
            idx = divmod(idx % n, v.m)
        if isinstance(idx, tuple) and len(idx) == 2 and all(isinstance(i, int) and not isinstance(i, bool) for i in idx):
            i, j = idx
            if not (-v.n <= i < v.n and -v.m <= j < v.m):
                raise ModelError("matrix index out of range")
            return self.wrap(v.rows[i][j], subst=self._subst_of(o))
        raise ModelError(f"matrix subscript {idx!r} has no model")

    def elements(self, o) -> list:
        """Iteration over a matrix: its elements, row by row (explicit matrices only)."""
        from .rules import ModelError

        v = self.value(o)
        if self.mode != "dense" or isinstance(v, (RF, NC, _Elem)):
            raise ModelError("iteration over a matrix term / a scalar")
        return [self.wrap(x, subst=self._subst_of(o)) for r in v.rows for x in r]

    def setitem(self, o, idx, val):
        from .rules import MObj, ModelError

        raw = o.attrs["__value__"]
        if isinstance(idx, tuple):
            idx = tuple(self._index(i) for i in idx)
        if isinstance(raw, NC) and (raw == NC.eye() or not raw.terms) and self.shape_of(o) is not None:
            # sp.eye(n) / a zero matrix written at [i, i] for every i: the diagonal is replaced as a whole
            rows, cols = self.shape_of(o)
            whole = (isinstance(idx, tuple) and len(idx) == 2 and idx[0] is idx[1] and isinstance(idx[0], MObj) and "index" in idx[0].kinds
                     and idx[0].attrs.get("__dim__") is rows and rows is cols)
            if not whole:
                raise ModelError("item assignment into an identity matrix of generic size at other places than [i, i] for every i")
            raw = o.attrs["__value__"] = _Builder(rows, cols)
        if isinstance(raw, _Builder):
            raw.entries.append((idx, val))
            return None
        if self.mode == "dense" and not isinstance(raw, (RF, NC, _Elem)) and isinstance(idx, tuple) and len(idx) == 2 and all(isinstance(i, int) and not isinstance(i, bool) for i in idx):
            x = self.value(val)
            if not isinstance(x, RF):
                raise ModelError("a matrix stored into a matrix element")
            raw.rows[idx[0]][idx[1]] = x
            self.mutations.append(idx)
            return None
        raise ModelError("item assignment into this value has no model")

    def _finalise(self, b: _Builder):
        """nc domain: what a ``zeros(n, n)`` filled by item assignment is."""
        from .rules import MObj, ModelError

        if not b.entries:
            return NC.make([])
        if len(b.entries) != 1:
            raise ModelError("a matrix filled at several places for a generic size")
        idx, val = b.entries[0]
        ok = (isinstance(idx, tuple) and len(idx) == 2 and idx[0] is idx[1] and isinstance(idx[0], MObj) and "index" in idx[0].kinds
              and idx[0].attrs.get("__dim__") is b.rows and b.rows is b.cols)
        if not ok:
            raise ModelError("a matrix of generic size filled at other places than [i, i] for every i of its dimension")
        return self._diagonal_of(self.value(val))

    def _diagonal_of(self, v, g=None):
        """The diagonal matrix whose i-th diagonal entry is the scalar ``v`` (which may depend on the generic i)."""
        from .rules import ModelError

        if isinstance(v, _Elem) and g is not None and all(r is g and c is g and self.is_diagonal(mat) for mat, r, c, _ in v.factors):
            out = NC.scalar(v.coeff)  # a product of diagonal elements [i, i] of diagonal matrices: the product of the matrices
            for mat, _, _, sign in sorted(v.factors, key=lambda t: repr(t[0].key())):
                out = out * (mat if sign == 1 else mat.inv())
            return out
        if isinstance(v, RF):
            if v.is_const():
                return NC.scalar(v)  # c * identity
            a = _single_atom(v)
            if isinstance(a, tuple) and a and a[0] == "sym" and f"<{GENERIC}>" in a[1]:
                m = NC.sym(a[1].replace(f"<{GENERIC}>", ""))
                self.diagonal.add(m.items()[0][1][0])
                return m
        raise ModelError("diagonal entries that are not one symbol per index (`Symbol(f'rho{i}')`) or a constant")

    def _elem_arith(self, op, va, vb):
        from .rules import ModelError

        def as_elem(v):
            if isinstance(v, _Elem):
                return v
            if isinstance(v, RF):
                return _Elem(v, ())
            raise ModelError("a matrix element combined with a matrix")

        x, y = as_elem(va), as_elem(vb)
        if op == "*":
            return _Elem(x.coeff * y.coeff, x.factors + y.factors)
        if op == "/":
            return _Elem(x.coeff / y.coeff, x.factors + tuple((m, r, c, -s) for m, r, c, s in y.factors))
        raise ModelError(f"operator {op} on matrix elements at generic indices")

    def _elementwise(self, n, m, f):
        """``Matrix(n, m, f)``."""
        from .rules import ModelError

        if self.mode == "dense":
            from .dense import Mat

            if not (isinstance(n, int) and isinstance(m, int)):
                raise ModelError("Matrix(n, m, f) with sizes that are not integers")
            rows = []
            for i in range(n):
                row = []
                for j in range(m):
                    x = self.value(self.ex.apply(f, [i, j], {}))
                    if not isinstance(x, RF):
                        raise ModelError("Matrix(n, m, f): f returns a matrix")
                    row.append(x)
                rows.append(row)
            return self.wrap(Mat(rows))
        if n is not m:
            raise ModelError("element-wise matrix of generic size that is not square")
        gi, gj = self._generic(n), self._generic(n)
        try:
            v = self.value(self.ex.apply(f, [gi, gj], {}))
        except ModelError as exc:
            if "generic index cannot be decided" not in str(exc):
                raise
            # the definition distinguishes i == j from i != j: a diagonal matrix if every off-diagonal element is 0
            self._unequal.add(frozenset((id(gi), id(gj))))
            off = self.value(self.ex.apply(f, [gi, gj], {}))
            if not (isinstance(off, RF) and off.is_zero()):
                raise ModelError("element-wise matrix of generic size with different formulas on and off the diagonal") from None
            return self.wrap(self._diagonal_of(self.value(self.ex.apply(f, [gi, gi], {})), gi), (n, m))
        if isinstance(v, RF):
            v = _Elem(v, ())
        if not isinstance(v, _Elem):
            raise ModelError("element-wise matrix whose element is a matrix")
        left, right, full = [], [], []
        for mat, r, c, sign in v.factors:
            if (r, c) == (gi, gj):
                if sign != 1:
                    raise ModelError("division by a full matrix element")
                full.append(mat)
            elif r is c and (r is gi or r is gj):
                if not self.is_diagonal(mat):
                    raise ModelError("element [k, k] of a matrix that is not known to be diagonal")
                (left if r is gi else right).append(mat if sign == 1 else mat.inv())
            else:
                raise ModelError("an element that is neither [i, j] nor a diagonal element [i, i] / [j, j]")
        if len(full) != 1:
            raise ModelError(f"element-wise product with {len(full)} full-matrix factors")
        out = NC.scalar(v.coeff)
        for x in sorted(left, key=lambda t: repr(t.key())):
            out = out * x
        out = out * full[0]
        for x in sorted(right, key=lambda t: repr(t.key())):
            out = out * x
        return self.wrap(out, (n, m))

    def _generic(self, dim):
        from .rules import MObj, ModelError

        g = MObj(GENERIC, kinds={"index"}, open=True)

        def eq(a, k):
            if a[0] is g:
                return True
            if frozenset((id(g), id(a[0]))) in self._unequal:
                return False  # the off-diagonal case of an element-wise definition (see _elementwise)
            raise ModelError("comparison of a generic index cannot be decided")

        g.attrs.update({"__dim__": dim, "__eq__": eq, "__key__": ("index", id(g)), "__str__": lambda a, k: f"<{GENERIC}>"})
        g.kinds |= {"int"}
        return g

    # ------------------------------------------------------------------ substitution (recorded)
    def substitute(self, o, a, k):
        from .rules import ModelError

        if self.mode == "nc":
            return o  # replacing symbols does not change the matrix algebra
        pairs: list = []
        if len(a) == 1 and isinstance(a[0], dict):
            items = list(a[0].items())
        elif len(a) == 2:
            items = [(a[0], a[1])]
        elif len(a) == 1 and isinstance(a[0], (list, tuple)):
            items = [tuple(p) for p in a[0]]
        else:
            raise ModelError("xreplace / subs with arguments that have no model")
        for key, val in items:
            kv = self.value(key)
            atom = _single_atom(kv) if isinstance(kv, RF) else None
            if atom is None:
                raise ModelError("a substituted key that is not a symbol")
            pairs.append((atom, self.value(val)))
        return self.wrap(self.value(o), self.shape_of(o), (*self._subst_of(o), *pairs))

    def substitutions(self, r) -> list:
        """[(atom, value)] recorded on a returned value, in the order of application."""
        return list(self._subst_of(r))

    # ------------------------------------------------------------------ externals
    def _intercept(self, fn: FuncInfo, args: list, kwargs: dict):
        from .rules import ModelError

        if fn.qual == self.SYMBOL_MATRIX:
            bound = self.ex._bind(fn.node, args, kwargs, fn)
            vals = [bound[p] for p in fn.params[:3]]
            if len(vals) != 3 or not isinstance(vals[0], str):
                raise ModelError("create_symbol_matrix: the name is not a string constant")
            return True, self._symbol_matrix(*vals)
        if fn.cls is not None and fn.outer is None and any(unparse(d) == "classmethod" for d in fn.node.decorator_list):
            from .rules import MObj

            first = [x.arg for x in [*fn.node.args.posonlyargs, *fn.node.args.args]][:1]
            if not (args and isinstance(args[0], MObj) and "class" in args[0].kinds) and not (first and first[0] in kwargs):
                # `SomeClass.make(...)` written with the class name: the class object is the first argument
                return True, self.ex.call_function(fn, [self.class_object(fn.cls.qual), *args], kwargs)
        if fn.name in self.opaque and fn.cls is not None:
            bound = self.ex._bind(fn.node, args, kwargs, fn)
            atom = ("param", fn.qual, tuple(sorted((n, self.key(v)) for n, v in bound.items())))
            self.params[atom] = (fn.qual, bound)
            return True, self.wrap(RF.atom(atom))
        return False, None

    def _symbol_matrix(self, name: str, rows, cols):
        from .rules import ModelError

        if self.mode == "nc":
            v = self.wrap(NC.sym(name), (rows, cols))
        else:
            from .dense import Mat

            if not (isinstance(rows, int) and isinstance(cols, int)):
                raise ModelError("create_symbol_matrix with sizes that are not integers")
            v = self.wrap(Mat.symbols(name, rows, cols))
        self.symbol_matrices.setdefault(name, []).append(v)
        return v

    def _record_ctor(self, c):
        """Constructor model of a NamedTuple / dataclass / attrs class of the package (helper objects that carry
        several values): an object with the fields as attributes; a NamedTuple also iterates and indexes."""
        from .rules import MObj, ModelError, ModelRaise

        named = any(b.split(".")[-1] == "NamedTuple" for b in c.bases)
        data = any(d.split(".")[-1].split("(")[0] in {"dataclass", "define", "frozen", "s", "attrs", "mutable"} for d, _ in c.decorators)
        if not (named or data):
            return None
        fields = [(st.target.id, st.value) for st in c.node.body if isinstance(st, ast.AnnAssign) and isinstance(st.target, ast.Name)]

        def ctor(a, k):
            if len(a) > len(fields):
                raise ModelRaise("TypeError", f"{c.name}() takes {len(fields)} arguments")
            vals = dict(zip([n for n, _ in fields], a))
            for n, v in k.items():
                if n in vals or n not in {f for f, _ in fields}:
                    raise ModelRaise("TypeError", f"{c.name}(): argument {n}")
                vals[n] = v
            for n, d in fields:
                if n not in vals:
                    if d is None:
                        raise ModelRaise("TypeError", f"{c.name}(): missing {n}")
                    vals[n] = self.ex.ev(d, {}, None, 0)
            o = MObj(f"{c.name}(...)", {n: vals[n] for n, _ in fields}, kinds={c.qual, c.name}, open=False)
            order = [vals[n] for n, _ in fields]
            if named:
                def getitem(x, _k):
                    if isinstance(x[0], int) and not isinstance(x[0], bool) and -len(order) <= x[0] < len(order):
                        return order[x[0]]
                    raise ModelError(f"subscript {x[0]!r} of a named tuple")

                o.attrs.update({"__iter__": lambda x, _k: list(order), "__getitem__": getitem, "__len__": lambda x, _k: len(order),
                                "_asdict": lambda x, _k: {n: vals[n] for n, _ in fields},
                                "_replace": lambda x, kk: ctor([], {**{n: vals[n] for n, _ in fields}, **kk})})
            from .rules import _FuncRef

            for name, m in c.methods.items():
                decos = {unparse(d) for d in m.node.decorator_list}
                if "staticmethod" in decos:
                    o.attrs.setdefault(name, _FuncRef(m))
                elif "property" in decos or "classmethod" in decos:
                    continue
                else:
                    o.attrs.setdefault(name, (lambda m_: lambda x, kk: self.ex.call_function(m_, [o, *x], kk))(m))
            o.attrs["__key__"] = ("record", c.qual, tuple(self.key(v) for v in order))
            o.attrs["__fields__"] = [n for n, _ in fields]
            return o

        return ctor

    def _externals(self) -> dict:  # noqa: C901
        from .rules import MObj, ModelError, ModelRaise

        one = lambda f: (lambda a, k: f(a[0]))  # noqa: E731

        def eye(a, k):
            n = a[0]
            if len(a) > 1 and a[1] is not n and a[1] != n:
                raise ModelError("sp.eye(n, m) with n != m")
            if self.mode == "nc":
                return self.wrap(NC.eye(), (n, n))
            from .dense import Mat

            if not isinstance(n, int):
                raise ModelError("sp.eye of a size that is not an integer")
            return self.wrap(Mat.eye(n))

        def zeros(a, k):
            n = a[0]
            m = a[1] if len(a) > 1 else n
            if self.mode == "nc":
                return self.wrap(_Builder(n, m), (n, m))
            from .dense import Mat

            if not (isinstance(n, int) and isinstance(m, int)):
                raise ModelError("sp.zeros of a size that is not an integer")
            return self.wrap(Mat([[RF.const(0) for _ in range(m)] for _ in range(n)]))

        def diag(a, k):
            items = list(a)
            if len(items) == 1 and isinstance(items[0], (list, tuple)):
                items = list(items[0])
            if self.mode == "nc":
                if len(items) != 1:
                    raise ModelError("sp.diag of explicitly listed entries for a generic size")
                return self.wrap(self._diagonal_of(self.value(items[0])))
            from .dense import Mat

            vals = [self.value(x) for x in items]
            if not all(isinstance(x, RF) for x in vals):
                raise ModelError("sp.diag of blocks")
            n = len(vals)
            return self.wrap(Mat([[vals[i] if i == j else RF.const(0) for j in range(n)] for i in range(n)]))

        def matrix(a, k):
            if len(a) == 3:
                return self._elementwise(a[0], a[1], a[2])
            if len(a) == 1 and isinstance(a[0], MObj) and "__value__" in a[0].attrs and not isinstance(self.value(a[0]), (RF, _Elem)):
                return a[0]  # Matrix(m): a copy
            if len(a) == 1 and isinstance(a[0], (list, tuple)) and self.mode == "dense":
                from .dense import Mat

                rows = [list(r) if isinstance(r, (list, tuple)) else [r] for r in a[0]]
                vals = [[self.value(x) for x in r] for r in rows]
                if vals and all(len(r) == len(vals[0]) for r in vals) and all(isinstance(x, RF) for r in vals for x in r):
                    return self.wrap(Mat(vals))
            raise ModelError("this form of sp.Matrix(...) has no model")

        def symbol(a, k):
            if not (a and isinstance(a[0], str)):
                raise ModelError("sp.Symbol with a name that is not a string")
            ass = tuple(sorted((n, v) for n, v in k.items()))
            atom = ("sym", a[0], ass)
            self.symbols[atom] = (a[0], dict(k))
            self.constructed.append(("Symbol", a[0], dict(k)))
            return self.wrap(RF.atom(atom))

        def indexed_base(a, k):
            if not (a and isinstance(a[0], str)):
                raise ModelError("sp.IndexedBase with a name that is not a string")
            ass = tuple(sorted((n, v) for n, v in k.items()))
            o = MObj(f"IndexedBase({a[0]})", kinds={"indexedbase", "sympy"}, open=True)
            self.constructed.append(("IndexedBase", a[0], dict(k)))

            def getitem(x, _k):
                idx = x[0] if isinstance(x[0], tuple) else (x[0],)
                return self.wrap(RF.atom(("indexed", a[0], ass, tuple(self.key(i) for i in idx))))

            o.attrs.update({"__getitem__": getitem, "__key__": ("indexedbase", a[0], ass), "name": a[0]})
            return o

        def rational(a, k):
            vals = [self.value(x) for x in a]
            if len(vals) == 1:
                return self.wrap(vals[0])
            if len(vals) == 2:
                return self.wrap(vals[0] / vals[1])
            raise ModelError("sp.Rational(...)")

        def rng(a, k):
            if all(isinstance(x, int) and not isinstance(x, bool) for x in a):
                return list(range(*a))
            if len(a) == 1 and isinstance(a[0], MObj) and "dim" in a[0].kinds:
                return [self._generic(a[0])]
            raise ModelError("range over a bound that is neither an integer nor a size")

        def total(a, k):
            items = self.ex.iterate(a[0])
            acc = a[1] if len(a) > 1 else k.get("start", 0)
            for x in items:
                acc = self._py_or_model("+", acc, x)
            return acc

        def prod(a, k):
            acc = k.get("start", 1)
            for x in self.ex.iterate(a[0]):
                acc = self._py_or_model("*", acc, x)
            return acc

        def reduce_(a, k):
            items = self.ex.iterate(a[1])
            if len(a) > 2:
                acc = a[2]
            elif items:
                acc, items = items[0], items[1:]
            else:
                raise ModelRaise("TypeError", "reduce() of empty iterable with no initial value")
            for x in items:
                acc = self.ex.apply(a[0], [acc, x], {})
            return acc

        def partial(a, k):
            f, pre, prek = a[0], list(a[1:]), dict(k)
            return lambda a2, k2: self.ex.apply(f, [*pre, *a2], {**prek, **k2})

        def product(a, k):
            import itertools

            repeat = k.get("repeat", 1)
            if not isinstance(repeat, int):
                raise ModelError("itertools.product(repeat=...) that is not an integer")
            return [tuple(t) for t in itertools.product(*[self.ex.iterate(x) for x in a], repeat=repeat)]

        def combinatoric(name):
            def run(a, k):
                import itertools

                r = a[1] if len(a) > 1 else k.get("r")
                if r is not None and not isinstance(r, int):
                    raise ModelError(f"itertools.{name} with a length that is not an integer")
                return [tuple(t) for t in getattr(itertools, name)(self.ex.iterate(a[0]), *([] if r is None else [r]))]

            return run

        def op(sym_):
            return lambda a, k: self._py_or_model(sym_, a[0], a[1])

        def itemgetter(a, k):
            def get(x, _k):
                vals = [self.ex.ev(ast.Subscript(value=ast.Name(id="__o", ctx=ast.Load()), slice=ast.Constant(value=i), ctx=ast.Load()), {"__o": x[0]}, None, 0) for i in a]
                return vals[0] if len(vals) == 1 else tuple(vals)

            return get

        def attrgetter(a, k):
            def get(x, _k):
                vals = []
                for path in a:
                    v = x[0]
                    for part in path.split("."):
                        v = self.ex.getattr(v, part)
                    vals.append(v)
                return vals[0] if len(vals) == 1 else tuple(vals)

            return get

        def symbols(a, k):
            """sp.symbols("rho:3") / sp.symbols(f"rho:{n}") / sp.symbols("a b")."""
            import re

            from .terms import expand_symbols

            if not (a and isinstance(a[0], str)):
                raise ModelError("sp.symbols with names that are not a string")
            kw = {n: v for n, v in k.items() if n not in {"cls", "seq"}}
            if len(kw) != len(k) and k.get("cls") is not None:
                raise ModelError("sp.symbols(cls=...) has no model")
            generic = re.fullmatch(r"(\w*?):<([^<>]+)>", a[0])
            if generic:
                if self.mode != "nc":
                    raise ModelError("sp.symbols over a symbolic range")
                return (symbol([f"{generic.group(1)}<{GENERIC}>"], kw),)
            try:
                names = expand_symbols(a[0])
            except Exception as exc:  # noqa: BLE001
                raise ModelError(f"sp.symbols({a[0]!r}): {exc}") from None
            vals = tuple(symbol([n], kw) for n in names)
            return vals if len(vals) != 1 or k.get("seq") or a[0].rstrip().endswith(",") else vals[0]

        unit = self.wrap(RF.atom("I"))
        ext = {
            "sympy.I": unit, "sympy.eye": eye, "sympy.zeros": zeros, "sympy.diag": diag,
            "sympy.Matrix": matrix, "sympy.ImmutableMatrix": matrix, "sympy.MutableDenseMatrix": matrix, "sympy.ImmutableDenseMatrix": matrix, "sympy.MutableMatrix": matrix,
            "sympy.sqrt": one(lambda x: self.func("sqrt", x)), "sympy.conjugate": one(lambda x: self.func("conj", x)),
            "sympy.transpose": one(lambda x: self.func("transpose", x)), "sympy.adjoint": one(lambda x: self.func("adjoint", x)),
            "sympy.sympify": one(lambda x: x), "sympy.S": one(lambda x: x),
            # the singletons ARE these numbers
            "sympy.S.Zero": self.wrap(RF.const(0)), "sympy.S.One": self.wrap(RF.const(1)), "sympy.S.NegativeOne": self.wrap(RF.const(-1)),
            "sympy.S.Half": self.wrap(RF.const(Fraction(1, 2))), "sympy.S.ImaginaryUnit": unit,
            "sympy.Matrix.eye": eye, "sympy.Matrix.zeros": zeros, "sympy.Matrix.diag": diag, "sympy.MutableDenseMatrix.eye": eye, "sympy.MutableDenseMatrix.zeros": zeros,
            "sympy.symbols": symbols,
            "sympy.Symbol": symbol, "sympy.IndexedBase": indexed_base, "sympy.Rational": rational, "sympy.Integer": rational, "sympy.Float": rational,
            "range": rng, "sum": total, "math.prod": prod, "functools.reduce": reduce_, "functools.partial": partial,
            "itertools.product": product, "itertools.permutations": combinatoric("permutations"), "itertools.combinations": combinatoric("combinations"),
            "itertools.combinations_with_replacement": combinatoric("combinations_with_replacement"),
            "itertools.chain": lambda a, k: [x for it in a for x in self.ex.iterate(it)],
            "itertools.chain.from_iterable": lambda a, k: [x for it in self.ex.iterate(a[0]) for x in self.ex.iterate(it)],
            "itertools.starmap": lambda a, k: [self.ex.apply(a[0], list(self.ex.iterate(t)), {}) for t in self.ex.iterate(a[1])],
            "itertools.repeat": lambda a, k: [a[0]] * a[1] if len(a) == 2 and isinstance(a[1], int) else _no_model("itertools.repeat without a count"),
            "operator.add": op("+"), "operator.sub": op("-"), "operator.mul": op("*"), "operator.matmul": op("@"), "operator.truediv": op("/"), "operator.pow": op("**"),
            "operator.neg": lambda a, k: self._py_or_model("*", -1, a[0]),
            "operator.itemgetter": itemgetter, "operator.attrgetter": attrgetter,
            "typing.cast": lambda a, k: a[1], "copy.copy": one(lambda x: x), "copy.deepcopy": one(lambda x: x),
        }
        for name in list(ext):
            if name.startswith("operator."):
                ext["_" + name] = ext[name]
        # rewriting functions: the value (as a function of the symbols) is unchanged
        self._identity = one(lambda x: x)
        for name in ("simplify", "expand", "together", "cancel", "factor", "radsimp", "ratsimp", "powsimp", "nsimplify", "expand_complex", "signsimp"):
            ext["sympy." + name] = self._identity
        return ext

    def _py_or_model(self, op: str, a, b):
        from .rules import MObj

        if isinstance(a, MObj) or isinstance(b, MObj):
            return self.arith(op, a, b)
        node = {"+": ast.Add, "-": ast.Sub, "*": ast.Mult, "@": ast.MatMult, "/": ast.Div, "**": ast.Pow}[op]()
        if op in {"/", "**"}:
            return self.arith(op, a, b)
        return self.ex.binop(node, a, b, ast.Constant(value=None))


def _no_model(what: str):
    from .rules import ModelError

    raise ModelError(what)


def _swap(shape):
    return None if shape is None else (shape[1], shape[0])


def _single_atom(v: RF):
    """The atom if ``v`` is exactly one atom with coefficient 1."""
    r = v.normalized()
    if r.d.is_const() and r.d.const_value() == 1 and len(r.n.t) == 1:
        ((m, c),) = r.n.t.items()
        if c == 1 and len(m) == 1 and m[0][1] == 1:
            return m[0][0]
    return None


class NCEval:
    """A package function evaluated on non-commutative matrix terms for a generic number of channels.

    ``run(fn, flags)``: boolean parameters are bound by ``flags``, ``cls`` to the class object, every other
    parameter is a symbolic size.  Returns the list of returned values.  ``special`` afterwards holds the
    tests ``<size> == k`` that were met (each decided as False, i.e. the generic path was taken)."""

    def __init__(self, tree: Tree) -> None:
        self.tree = tree
        self.assume: dict = {}
        self.special: dict = {}
        self.model: MatrixModel | None = None

    def run(self, fn: FuncInfo, flags: dict, extra: dict | None = None) -> list:
        model = self.model = MatrixModel(self.tree, "nc", assume=self.assume)
        kwargs = dict(flags)
        kwargs.update(extra or {})
        args: list = []
        a = fn.node.args
        for i, p in enumerate([x.arg for x in [*a.posonlyargs, *a.args, *a.kwonlyargs]]):
            if p in kwargs:
                continue
            if i == 0 and p in {"cls", "self"} and fn.cls is not None:
                kwargs[p] = model.class_object(fn.cls.qual)
            elif p not in _defaults(fn):
                kwargs[p] = model.dim(p)
        res = model.call(fn, args, kwargs)
        self.special.update(model.special)
        return model.results(res)


def _defaults(fn: FuncInfo) -> set:
    a = fn.node.args
    pos = [x.arg for x in [*a.posonlyargs, *a.args]]
    out = set(pos[len(pos) - len(a.defaults):]) if a.defaults else set()
    out |= {k.arg for k, d in zip(a.kwonlyargs, a.kw_defaults) if d is not None}
    return out
