"""E0/E1 - loader, index, name resolution and call graph.

Parses every ``*.py`` below ``<repo>/src/ampform`` (and ``src/symplot``) afresh on
every run.  Nothing is imported or executed.  The repository root is ``/repo``
unless ``VERIF_REPO`` says otherwise (used by the self-test harness to point the
very same checks at an in-memory or scratch variant of the tree).
"""

from __future__ import annotations

import ast
import hashlib
import os
from dataclasses import dataclass, field
from pathlib import Path
from typing import Iterable, Iterator

REPO = Path(os.environ.get("VERIF_REPO", "/repo"))
PACKAGES = ("ampform", "symplot")
# modules confirmed by hand on the pinned tree; a tree that lacks the ones a rule
# needs makes that rule fail with ANALYSIS-ERROR (never a silent pass)
MIN_MODULES = 20


class AnalysisError(Exception):
    """The analysis itself cannot be trusted (exit code 2)."""


@dataclass
class Module:
    name: str
    relpath: str
    is_pkg: bool
    source: str
    tree: ast.Module
    sha256: str
    imports: dict[str, str] = field(default_factory=dict)
    toplevel: dict[str, ast.AST] = field(default_factory=dict)
    # star/explicit re-exports are just imports

    @property
    def package(self) -> str:
        return self.name if self.is_pkg else self.name.rpartition(".")[0]


@dataclass
class FuncInfo:
    qual: str  # "ampform.helicity::Cls.meth" / "mod::func.inner"
    node: ast.FunctionDef
    module: Module
    cls: "ClassInfo | None"
    outer: "FuncInfo | None"

    @property
    def name(self) -> str:
        return self.node.name

    @property
    def params(self) -> list[str]:
        a = self.node.args
        return [x.arg for x in [*a.posonlyargs, *a.args, *a.kwonlyargs]]

    def __hash__(self) -> int:
        return hash(self.qual)

    def __eq__(self, other) -> bool:
        return isinstance(other, FuncInfo) and other.qual == self.qual


@dataclass
class ClassInfo:
    qual: str
    node: ast.ClassDef
    module: Module
    bases: list[str] = field(default_factory=list)  # resolved names
    decorators: list[tuple[str, ast.AST]] = field(default_factory=list)
    methods: dict[str, FuncInfo] = field(default_factory=dict)

    @property
    def name(self) -> str:
        return self.node.name

    def __hash__(self) -> int:
        return hash(self.qual)

    def __eq__(self, other) -> bool:
        return isinstance(other, ClassInfo) and other.qual == self.qual


def _set_parents(tree: ast.AST) -> None:
    for parent in ast.walk(tree):
        for child in ast.iter_child_nodes(parent):
            child._parent = parent  # type: ignore[attr-defined]


def parent(node: ast.AST) -> ast.AST | None:
    return getattr(node, "_parent", None)


def ancestors(node: ast.AST) -> Iterator[ast.AST]:
    p = parent(node)
    while p is not None:
        yield p
        p = parent(p)


def unparse(node: ast.AST) -> str:
    try:
        return ast.unparse(node)
    except Exception:  # noqa: BLE001
        return f"<{type(node).__name__}>"


class Tree:
    """All parsed modules plus the def/class index and resolver."""

    def __init__(self, sources: dict[str, str], root: str = "") -> None:
        # sources: relpath ("src/ampform/x.py") -> text
        self.root = root
        self.modules: dict[str, Module] = {}
        self.by_relpath: dict[str, Module] = {}
        self.funcs: dict[str, FuncInfo] = {}
        self.classes: dict[str, ClassInfo] = {}
        self._func_of_node: dict[int, FuncInfo] = {}
        self._class_of_node: dict[int, ClassInfo] = {}
        for relpath in sorted(sources):
            self._add_module(relpath, sources[relpath])
        if len([m for m in self.modules if m.startswith("ampform")]) < MIN_MODULES:
            raise AnalysisError(
                f"only {len(self.modules)} modules found under {root}/src/ampform"
                f" (expected >= {MIN_MODULES})"
            )
        for mod in self.modules.values():
            self._index_module(mod)
        for cls in self.classes.values():
            self._resolve_class_header(cls)

    # ------------------------------------------------------------------ load
    @classmethod
    def from_repo(cls, repo: Path | str | None = None) -> "Tree":
        repo = Path(repo) if repo is not None else REPO
        return cls(read_sources(repo), root=str(repo))

    def _add_module(self, relpath: str, source: str) -> None:
        parts = Path(relpath).with_suffix("").parts
        assert parts[0] == "src", relpath
        parts = parts[1:]
        is_pkg = parts[-1] == "__init__"
        if is_pkg:
            parts = parts[:-1]
        name = ".".join(parts)
        try:
            tree = ast.parse(source, filename=relpath)
        except SyntaxError as exc:
            raise AnalysisError(f"cannot parse {relpath}: {exc}") from exc
        from .normalize import normalize

        tree = normalize(tree)  # one spelling per idiom (behaviour-preserving, positions kept): sa/normalize.py
        _set_parents(tree)
        mod = Module(
            name=name,
            relpath=relpath,
            is_pkg=is_pkg,
            source=source,
            tree=tree,
            sha256=hashlib.sha256(source.encode()).hexdigest(),
        )
        for node in ast.walk(tree):
            node._module = mod  # type: ignore[attr-defined]
        self.modules[name] = mod
        self.by_relpath[relpath] = mod

    def _index_module(self, mod: Module) -> None:
        # imports anywhere in the module (function-level imports included; the
        # package uses them for lazy imports) - module-level ones win
        for node in ast.walk(mod.tree):
            if isinstance(node, ast.Import):
                for alias in node.names:
                    local = alias.asname or alias.name.split(".")[0]
                    target = alias.name if alias.asname else alias.name.split(".")[0]
                    mod.imports.setdefault(local, target)
            elif isinstance(node, ast.ImportFrom):
                base = self._absolute_from(mod, node)
                for alias in node.names:
                    if alias.name == "*":
                        continue
                    local = alias.asname or alias.name
                    mod.imports.setdefault(local, f"{base}.{alias.name}" if base else alias.name)
        self._index_body(mod, mod.tree.body, prefix="", cls=None, outer=None)

    @staticmethod
    def _absolute_from(mod: Module, node: ast.ImportFrom) -> str:
        if node.level == 0:
            return node.module or ""
        pkg_parts = mod.package.split(".") if mod.package else []
        up = node.level - 1
        if up:
            pkg_parts = pkg_parts[:-up]
        if node.module:
            pkg_parts = [*pkg_parts, node.module]
        return ".".join(pkg_parts)

    def _index_body(self, mod, body, prefix, cls, outer) -> None:
        for st in _iter_defs(body):
            if isinstance(st, (ast.FunctionDef, ast.AsyncFunctionDef)):
                qual = f"{mod.name}::{prefix}{st.name}"
                # overloads / redefinitions: the last definition wins (Python semantics)
                info = FuncInfo(qual, st, mod, cls, outer)
                self.funcs[qual] = info
                self._func_of_node[id(st)] = info
                if cls is not None and outer is None:
                    cls.methods[st.name] = info
                if not prefix:
                    mod.toplevel[st.name] = st
                self._index_body(mod, st.body, f"{prefix}{st.name}.", None, info)
            elif isinstance(st, ast.ClassDef):
                qual = f"{mod.name}::{prefix}{st.name}"
                cinfo = ClassInfo(qual, st, mod)
                self.classes[qual] = cinfo
                self._class_of_node[id(st)] = cinfo
                if not prefix:
                    mod.toplevel[st.name] = st
                self._index_body(mod, st.body, f"{prefix}{st.name}.", cinfo, None)
            elif isinstance(st, (ast.Assign, ast.AnnAssign)) and not prefix:
                targets = st.targets if isinstance(st, ast.Assign) else [st.target]
                for t in targets:
                    if isinstance(t, ast.Name):
                        mod.toplevel[t.id] = st

    def _resolve_class_header(self, cls: ClassInfo) -> None:
        cls.bases = [self.resolve(cls.module, b) or unparse(b) for b in cls.node.bases]
        for dec in cls.node.decorator_list:
            target = dec.func if isinstance(dec, ast.Call) else dec
            cls.decorators.append((self.resolve(cls.module, target) or unparse(target), dec))

    # --------------------------------------------------------------- lookups
    def func(self, qual: str) -> FuncInfo:
        try:
            return self.funcs[qual]
        except KeyError:
            raise AnalysisError(f"vanished anchor: function {qual} not found") from None

    def cls(self, qual: str) -> ClassInfo:
        try:
            return self.classes[qual]
        except KeyError:
            raise AnalysisError(f"vanished anchor: class {qual} not found") from None

    def module(self, name: str) -> Module:
        try:
            return self.modules[name]
        except KeyError:
            raise AnalysisError(f"vanished anchor: module {name} not found") from None

    def func_of(self, node: ast.AST) -> FuncInfo | None:
        """Innermost function enclosing ``node`` (or ``node`` itself)."""
        for n in [node, *ancestors(node)]:
            if id(n) in self._func_of_node:
                return self._func_of_node[id(n)]
        return None

    def class_of(self, node: ast.AST) -> ClassInfo | None:
        for n in [node, *ancestors(node)]:
            if id(n) in self._class_of_node:
                return self._class_of_node[id(n)]
            if isinstance(n, (ast.FunctionDef, ast.AsyncFunctionDef)) and n is not node:
                # a method: continue outwards to its class
                continue
        return None

    def funcs_in(self, module: str) -> list[FuncInfo]:
        return [f for q, f in self.funcs.items() if q.startswith(module + "::")]

    def loc(self, node: ast.AST) -> str:
        mod = getattr(node, "_module", None)
        rel = mod.relpath if mod else "?"
        return f"{rel}:{getattr(node, 'lineno', 0)}"

    # ------------------------------------------------------------ resolution
    def canonical(self, dotted: str, _depth: int = 0) -> str:
        """Map an absolute dotted name to ``mod::Obj.attr`` if it lives in the repo."""
        if "::" in dotted or _depth > 8:
            return dotted
        parts = dotted.split(".")
        for i in range(len(parts), 0, -1):
            modname = ".".join(parts[:i])
            if modname in self.modules:
                rest = parts[i:]
                if not rest:
                    return modname
                mod = self.modules[modname]
                head = rest[0]
                if head in mod.toplevel:
                    node = mod.toplevel[head]
                    # module-level alias "a = b" to another name
                    if isinstance(node, ast.Assign) and isinstance(node.value, (ast.Name, ast.Attribute)):
                        tgt = self.resolve(mod, node.value)
                        if tgt and tgt != dotted:
                            return self.canonical(".".join([tgt, *rest[1:]]) if rest[1:] else tgt, _depth + 1)
                    return f"{modname}::{'.'.join(rest)}"
                if head in mod.imports:
                    return self.canonical(".".join([mod.imports[head], *rest[1:]]), _depth + 1)
                return f"{modname}::{'.'.join(rest)}"
        return dotted

    def resolve(self, mod: Module, node: ast.AST, scope: FuncInfo | None = None) -> str | None:
        """Resolve a Name / Attribute chain to a repo qualname or external dotted name.

        ``self.x`` / ``cls.x`` inside a class resolve through the MRO of repo classes.
        Returns None if the head is a local variable or otherwise unknown.
        """
        if isinstance(node, ast.Name):
            name = node.id
            # nested function defined in an enclosing function scope
            sc = scope
            while sc is not None:
                q = f"{sc.qual}.{name}"
                if q in self.funcs:
                    return q
                if name in sc.params or name in _local_names(sc.node):
                    return None
                sc = sc.outer
            if name in mod.toplevel:
                node_def = mod.toplevel[name]
                if isinstance(node_def, ast.Assign) and isinstance(node_def.value, (ast.Name, ast.Attribute)):
                    if not (isinstance(node_def.value, ast.Name) and node_def.value.id == name):
                        tgt = self.resolve(mod, node_def.value)
                        if tgt:
                            return tgt
                return f"{mod.name}::{name}"
            if name in mod.imports:
                return self.canonical(mod.imports[name])
            return None
        if isinstance(node, ast.Attribute):
            # self.attr / cls.attr
            if isinstance(node.value, ast.Name) and node.value.id in {"self", "cls"}:
                cinfo = self._enclosing_class(node, scope)
                if cinfo is not None:
                    m = self.lookup_method(cinfo, node.attr)
                    if m is not None:
                        return m.qual
                    return None
            if (
                isinstance(node.value, ast.Call)
                and isinstance(node.value.func, ast.Name)
                and node.value.func.id == "super"
            ):
                cinfo = self._enclosing_class(node, scope)
                if cinfo is not None:
                    for base in self.mro(cinfo)[1:]:
                        if node.attr in base.methods:
                            return base.methods[node.attr].qual
                    for b in cinfo.bases:
                        if "::" not in b:
                            return f"{b}.{node.attr}"
                return None
            base = self.resolve(mod, node.value, scope)
            if base is None:
                return None
            if "::" in base:
                if base in self.classes:
                    m = self.lookup_method(self.classes[base], node.attr)
                    if m is not None:
                        return m.qual
                # attribute of a property / annotated attribute: use the declared type
                cls_q = self._declared_type(base)
                if cls_q is not None:
                    m = self.lookup_method(self.classes[cls_q], node.attr)
                    if m is not None:
                        return m.qual
                return f"{base}.{node.attr}"
            if base in self.modules:
                return self.canonical(f"{base}.{node.attr}")
            return self.canonical(f"{base}.{node.attr}")
        return None

    def _declared_type(self, qual: str) -> str | None:
        """Class that a property (by its return annotation) evaluates to."""
        fn = self.funcs.get(qual)
        if fn is None or fn.node.returns is None:
            return None
        if not any(unparse(d) in {"property", "cached_property", "functools.cached_property"} for d in fn.node.decorator_list):
            return None
        ann = fn.node.returns
        if isinstance(ann, ast.Constant) and isinstance(ann.value, str):
            try:
                ann = ast.parse(ann.value, mode="eval").body
            except SyntaxError:
                return None
        if isinstance(ann, (ast.Name, ast.Attribute)):
            tgt = self.resolve(fn.module, ann)
            if tgt in self.classes:
                return tgt
        return None

    def _enclosing_class(self, node: ast.AST, scope: FuncInfo | None) -> ClassInfo | None:
        sc = scope or self.func_of(node)
        while sc is not None:
            if sc.cls is not None:
                return sc.cls
            sc = sc.outer
        return None

    def mro(self, cls: ClassInfo) -> list[ClassInfo]:
        out, todo = [], [cls]
        while todo:
            c = todo.pop(0)
            if c in out:
                continue
            out.append(c)
            todo.extend(self.classes[b] for b in c.bases if b in self.classes)
        return out

    def external_bases(self, cls: ClassInfo) -> list[str]:
        out = []
        for c in self.mro(cls):
            out.extend(b for b in c.bases if b not in self.classes)
        return out

    def lookup_method(self, cls: ClassInfo, name: str) -> FuncInfo | None:
        for c in self.mro(cls):
            if name in c.methods:
                return c.methods[name]
        return None

    def subclasses(self, cls: ClassInfo) -> list[ClassInfo]:
        return [c for c in self.classes.values() if c is not cls and cls in self.mro(c)]

    def callee(self, call: ast.Call, scope: FuncInfo | None = None) -> str | None:
        mod = call._module  # type: ignore[attr-defined]
        scope = scope or self.func_of(call)
        target = self.resolve(mod, call.func, scope)
        if target is None and scope is not None and isinstance(call.func, ast.Attribute) and isinstance(call.func.value, ast.Name):
            # `x.m(...)` where the local x is bound exactly once in this function, to `Cls(...)` of a class of the tree:
            # the method of that class (an object of a subclass cannot be what the constructor call returns)
            target = self._method_of_local(mod, scope, call.func.value.id, call.func.attr)
        if target is None and scope is not None and isinstance(call.func, ast.Attribute) and isinstance(call.func.value, ast.Attribute) \
                and isinstance(call.func.value.value, ast.Name) and call.func.value.value.id == "self":
            # `self.<attr>.m(...)` where every binding of `self.<attr>` in the class is `Cls(...)` / `Cls.<classmethod>()`
            # of ONE class of the tree (an object the instance owns): the method of that class
            target = self._method_of_owned(scope, call.func.value.attr, call.func.attr)
        return target

    def _method_of_owned(self, scope: FuncInfo, attr: str, method: str) -> str | None:
        top = scope
        while top.outer is not None:
            top = top.outer
        cls = top.cls
        if cls is None:
            return None
        cache = self.__dict__.setdefault("_owned_classes", {})
        key = (cls.qual, attr)
        if key not in cache:
            names = {attr, f"_{cls.name.lstrip('_')}{attr}"} if attr.startswith("__") and not attr.endswith("__") else {attr}
            found: set = set()
            for c in [cls, *self.subclasses(cls), *[k for k in self.mro(cls) if k is not cls]]:
                for m in c.methods.values():
                    for n in walk_function(m.node):
                        tgts = n.targets if isinstance(n, ast.Assign) else [n.target] if isinstance(n, ast.AnnAssign) and n.value is not None else []
                        for t in tgts:
                            if isinstance(t, ast.Attribute) and t.attr in names and isinstance(t.value, ast.Name) and t.value.id == "self":
                                v = n.value
                                q = None
                                if isinstance(v, ast.Call):
                                    q = self.resolve(m.module, v.func, m)
                                    if q not in self.classes and isinstance(v.func, ast.Attribute):
                                        q0 = self.resolve(m.module, v.func.value, m)  # Cls.empty()
                                        q = q0 if q0 in self.classes else None
                                found.add(q if q in self.classes else None)
            cache[key] = self.classes[next(iter(found))] if len(found) == 1 and None not in found else None
        owned = cache[key]
        if owned is None:
            return None
        m = self.lookup_method(owned, method)
        return m.qual if m is not None else None

    def _method_of_local(self, mod: Module, scope: FuncInfo, name: str, attr: str) -> str | None:
        cache = self.__dict__.setdefault("_local_classes", {})
        key = (scope.qual, name)
        if key not in cache:
            stores = [n for n in walk_function(scope.node, nested=False) if isinstance(n, ast.Name) and n.id == name and isinstance(n.ctx, (ast.Store, ast.Del))]
            cls = None
            if len(stores) == 1 and name not in scope.params:
                st = getattr(stores[0], "_parent", None)
                value = st.value if isinstance(st, ast.Assign) and len(st.targets) == 1 and st.targets[0] is stores[0] else st.value if isinstance(st, ast.AnnAssign) and st.target is stores[0] else None
                if isinstance(value, ast.Call):
                    q = self.resolve(mod, value.func, scope)
                    if q in self.classes and not any(d in {"dataclasses.dataclass"} and False for d, _ in self.classes[q].decorators):
                        cls = self.classes[q]
            cache[key] = cls
        cls = cache[key]
        if cls is None:
            return None
        m = self.lookup_method(cls, attr)
        return m.qual if m is not None else None

    # --------------------------------------------------------------- walking
    def calls_in(self, fn: FuncInfo, nested: bool = True) -> Iterator[tuple[ast.Call, str | None]]:
        for node in walk_function(fn.node, nested=nested):
            if isinstance(node, ast.Call):
                yield node, self.callee(node, self.func_of(node) or fn)

    def call_graph(self) -> dict[str, set[str]]:
        graph: dict[str, set[str]] = {}
        for q, fn in self.funcs.items():
            tgt = graph.setdefault(q, set())
            for call, callee in self.calls_in(fn, nested=False):
                if callee and "::" in callee:
                    if callee in self.classes:
                        init = self.lookup_method(self.classes[callee], "__init__") or self.lookup_method(
                            self.classes[callee], "__new__"
                        )
                        tgt.add(callee)
                        if init:
                            tgt.add(init.qual)
                    else:
                        tgt.add(callee)
                        # overriding subclasses are may-targets
                        f = self.funcs.get(callee)
                        if f is not None and f.cls is not None:
                            for sub in self.subclasses(f.cls):
                                if f.name in sub.methods:
                                    tgt.add(sub.methods[f.name].qual)
            # nested functions are reachable from their definer
            for inner in self.funcs.values():
                if inner.outer is fn:
                    tgt.add(inner.qual)
        return graph

    def reachable(self, start: str, graph: dict[str, set[str]] | None = None) -> set[str]:
        graph = graph or self.call_graph()
        seen, todo = set(), [start]
        while todo:
            q = todo.pop()
            if q in seen:
                continue
            seen.add(q)
            todo.extend(graph.get(q, ()))
        return seen

    def digest(self) -> dict[str, str]:
        return {m.relpath: m.sha256 for m in self.modules.values()}


def _iter_defs(body: Iterable[ast.stmt]) -> Iterator[ast.stmt]:
    """Statements of a body, looking through if/try/with (conditional definitions)."""
    for st in body:
        yield st
        if isinstance(st, ast.If):
            yield from _iter_defs(st.body)
            yield from _iter_defs(st.orelse)
        elif isinstance(st, ast.Try):
            yield from _iter_defs(st.body)
            for h in st.handlers:
                yield from _iter_defs(h.body)
            yield from _iter_defs(st.orelse)
            yield from _iter_defs(st.finalbody)
        elif isinstance(st, (ast.With, ast.For, ast.While)):
            yield from _iter_defs(st.body)


def walk_function(fn: ast.AST, nested: bool = True) -> Iterator[ast.AST]:
    """Walk the body of a function; optionally do not descend into nested defs/classes."""
    todo = list(ast.iter_child_nodes(fn))
    while todo:
        node = todo.pop(0)
        yield node
        if not nested and isinstance(node, (ast.FunctionDef, ast.AsyncFunctionDef, ast.ClassDef, ast.Lambda)):
            continue
        todo[0:0] = list(ast.iter_child_nodes(node))


def _local_names(fn: ast.FunctionDef) -> set[str]:
    cached = getattr(fn, "_locals", None)
    if cached is not None:
        return cached
    names: set[str] = set()
    for node in walk_function(fn, nested=False):
        if isinstance(node, ast.Name) and isinstance(node.ctx, ast.Store):
            names.add(node.id)
    fn._locals = names  # type: ignore[attr-defined]
    return names


def read_sources(repo: Path) -> dict[str, str]:
    out: dict[str, str] = {}
    for pkg in PACKAGES:
        base = repo / "src" / pkg
        if not base.is_dir():
            if pkg == "ampform":
                raise AnalysisError(f"{base} does not exist")
            continue
        for path in sorted(base.rglob("*.py")):
            out[str(path.relative_to(repo))] = path.read_text(encoding="utf-8")
    return out
