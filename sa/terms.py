"""E3 - term extraction from branch-free function bodies into the normal forms of poly.py.

``TermEval`` turns a Python expression AST that *constructs* a SymPy expression into a
value of a small abstract domain: ``RF`` (scalar rational function over atoms), ``Tup``,
``Mat``, ``PW`` (Piecewise), ``Rel`` (comparison) and ``Opaque`` (strings, classes, None).
Applications of repository expression classes become ``App`` atoms whose arguments are
canonicalised through the class's field list; they can be *unfolded* on request by
evaluating the class's ``evaluate`` method in the same way.  Nothing is executed: this is
forward substitution plus algebraic normalisation.

Spellings that denote the same construction evaluate to the same value: ``x is None`` / ``is not`` are
relations like ``==``; ``{**a, **b}`` is the merged dict display; a conditional expression whose test is decided
by constants is its taken arm; ``f = self.__m`` binds the method to the abstract ``self`` (``Bound``) and
``f(...)`` is the call of that method; a statement ``_require_x(pool)`` that calls a helper which only validates
(tests, raises) contributes nothing; under ``fork`` a test outside the grammar is an opaque path label, and a
caller that unpacks the per-path tuples of a forked callee is continued once per path.

Statement grammar of a function body: assignments (tuple unpacking, ``x op= e`` on scalar / matrix
terms, ``d[k] = v`` on a dict value - in place, so a dict held by ``self`` and filled by a helper method
is seen by the caller), ``if`` on tests that constant propagation decides (or forked, see ``fork``),
guard clauses that only raise, ``return``.  Expression grammar: arithmetic, calls of package functions
(inlined) and classes, the SymPy constructors below, list / generator comprehensions over tuples of
known length (``a, b = (f(x) for x in (s, s0))``), and calls of builtins / string methods over
constants (``"".join(map(str, ids))``), which are folded to the constant.

Loops and callables (the same term whether a sum is written out, accumulated or folded): ``for x in T``
over a collection of known length and order (tuple / list value, dict value, constant range) is unrolled
into its statements (no ``break`` / ``continue``; also under ``fork``); ``sum`` / ``math.prod`` /
``functools.reduce`` / ``map`` / ``zip`` / ``enumerate`` / ``reversed`` / ``itertools.chain`` / ``product`` /
``starmap`` / ``combinations`` / ``permutations`` over such collections are folded; ``operator.add`` ... are the operators; a ``lambda``, a nested ``def``, a
``functools.partial`` and a reference to a package function / class held in a local are callable values
(``Lam``, ``Partial``) applied by binding their parameters; ``f(*args)`` / ``sp.Piecewise(*branches)``
splat tuple values into any call; ``d[k]`` / ``d.get(k, v)`` / ``d.items()`` read a dict value, ``{k: v for ...}``
builds one; ``sp.eye(n)`` / ``sp.zeros`` / ``sp.ones`` / ``sp.diag(a, b, ...)`` / ``sp.Matrix(r, c, f)`` are the
matrices they build, ``m[i, j] = v`` (also ``op=``) fills an entry and ``m[1:, 1:] = block`` a block in place, ``m[a:b, c:d]``
/ ``row_join`` / ``col_join`` / ``hstack`` / ``vstack`` / ``row`` / ``col`` / ``applyfunc`` / ``.T`` cut and glue, a scalar factor applies entry-wise;
``b.field`` of an instance of a repo expression class is the argument it was built with (``b = self.evaluate();
b.b01``); ``(x,) = S`` unpacks a constant one-element set; strings are built by f-string, ``+``, ``%``,
``.format``, ``s += t``, the methods of ``str`` over constants (``.strip()``, ``.replace(a, b)``, ``.splitlines()``), slices with constant bounds (``letters[k : k + 2]``) and ``"".join(generator)``; a module-level constant table (tuple display, or a list / set display that nothing in the module touches) is its value; a ``try`` whose handlers only re-raise is its body; ``sp.Not`` / ``And`` / ``Or`` / ``~`` / ``&`` / ``|`` over relations are kept as ``Logic`` values; an object of a plain record class
(NamedTuple / dataclass / attrs without converters or constructor hooks) is its constructor arguments (``p.mass``,
``p[0]``, ``a, b = p``); ``assert`` and the walrus
are read as what they do; ``def f(*pairs, **options)`` binds the surplus positional / keyword arguments as the
tuple / dict value the callee sees.  Opt-in object model (a rule installs ``new_object`` as the override of a plain
class): ``C(...)`` is the struct of the attributes ``__init__`` stores on ``self``, ``obj.method`` the bound method,
``obj(...)`` its ``__call__``; ``module_values`` holds module-level objects a rule evaluated beforehand (a shared
builder instance used by module functions); ``sp.Symbol(name, **assumptions)`` reads the dict value, and every
construction of a symbol name is kept in ``symbol_constructions``.

Anything outside the grammar raises ``ExtractionError`` (reported as ANALYSIS-ERROR for
that instance, never as a pass or a violation).
"""

from __future__ import annotations

import ast
import re
import string as _string
from dataclasses import dataclass
from fractions import Fraction
from typing import Any, Callable

from .exprmodel import ExprClass, expression_classes
from .loader import AnalysisError, FuncInfo, Tree, unparse
from .poly import RF, D, Poly, as_rf, sqrt


class ExtractionError(AnalysisError):
    pass


class NoReturn(ExtractionError):
    """The end of a block was reached without a return."""


class RaisedError(ExtractionError):
    """The extracted code raises for the given constants (a guard fired)."""


class BareReturn(ExtractionError):
    """A value-less ``return`` was reached: the call has no value (only a discarded call may end this way)."""


# ---------------------------------------------------------------------------- values


@dataclass(frozen=True)
class Opaque:
    key: Any

    def __repr__(self) -> str:
        return f"Opaque({self.key!r})"


@dataclass
class Tup:
    items: list

    def key(self):
        return ("tup", tuple(vkey(i) for i in self.items))


@dataclass
class Mat:
    rows: list[list]

    def key(self):
        return ("mat", tuple(tuple(vkey(e) for e in r) for r in self.rows))

    @property
    def shape(self):
        return len(self.rows), len(self.rows[0]) if self.rows else 0

    def transpose(self) -> "Mat":
        return Mat([list(r) for r in zip(*self.rows)])

    def matmul(self, o: "Mat") -> "Mat":
        ot = o.transpose().rows
        return Mat([[sum((a * b for a, b in zip(r, c)), RF.const(0)) for c in ot] for r in self.rows])


@dataclass
class Rel:
    op: str
    lhs: Any
    rhs: Any

    def key(self):
        return ("rel", self.op, vkey(self.lhs), vkey(self.rhs))


@dataclass
class Logic:
    """``Not`` / ``And`` / ``Or`` of relations (``sp.Not(k <= 0)``, ``~c``, ``a & b``): kept structurally, because a
    negated relation is not the flipped relation where the comparison is undefined (NaN)."""

    op: str  # "not" | "and" | "or"
    args: list

    def key(self):
        return ("logic", self.op, tuple(vkey(a) for a in self.args))


@dataclass
class PW:
    branches: list[tuple[Any, Any]]  # (value, condition) ; condition True -> Opaque(True)

    def key(self):
        return ("pw", tuple((vkey(v), vkey(c)) for v, c in self.branches))


@dataclass
class DictV:
    items: list  # list of (key value, value value)

    def key(self):
        return ("dict", tuple(sorted(((vkey(k), vkey(v)) for k, v in self.items), key=repr)))

    def get(self, k):
        kk = vkey(k)
        for a, b in self.items:
            if vkey(a) == kk:
                return b
        return None


@dataclass
class Bound:
    """A method looked up on the abstract `self` without being called (`f = self.__a if flag else self.__b`):
    the function and the receiver it is bound to (None for a staticmethod)."""

    func: str
    recv: Any

    def key(self):
        return ("bound", self.func, vkey(self.recv))


@dataclass
class Lam:
    """A ``lambda`` (or a nested ``def``) held in a local / handed to a helper, ``map`` or ``reduce``: applied by binding its parameters in the
    environment it was written in (the same dict object: free names are looked up late, like a closure).
    It has no canonical key on purpose: a callable cannot become part of a term."""

    node: Any  # ast.Lambda
    env: Any
    fn: Any


@dataclass
class Partial:
    """``functools.partial(f, *args, **kwargs)``: the callable value ``f`` with some arguments already given."""

    func: Any
    args: list
    kwargs: dict


@dataclass
class AppInfo:
    """What an App atom stands for (kept in a side table keyed by the atom)."""

    cls: str  # qualname of the expression class or name of an external function
    args: list  # values in field order (repo classes) / positional (external)
    kwargs: dict


def vkey(v) -> Any:
    if isinstance(v, RF):
        return v.key()
    if isinstance(v, (Tup, Mat, Rel, PW, DictV, Bound, Logic)):
        return v.key()
    if isinstance(v, dict):
        return ("struct", tuple(sorted((str(k), vkey(x)) for k, x in v.items())))
    if isinstance(v, Opaque):
        return ("opaque", v.key)
    if isinstance(v, (int, Fraction)):
        return RF.const(v).key()
    if v is None:
        return ("opaque", None)
    if isinstance(v, (str, bool)):
        return ("opaque", v)
    if isinstance(v, list):
        return ("tup", tuple(vkey(i) for i in v))
    raise ExtractionError(f"no canonical key for {type(v).__name__}")


# external functions that stay opaque applications (name -> arity or None)
OPAQUE_FUNCS = {
    "Abs", "log", "atan", "atan2", "acos", "asin", "cos", "sin", "tan", "exp", "conjugate", "factorial",
    "re", "im", "sign", "Max", "Min", "floor",
}
RELATIONALS = {
    "LessThan": "<=", "Le": "<=", "StrictLessThan": "<", "Lt": "<", "GreaterThan": ">=", "Ge": ">=",
    "StrictGreaterThan": ">", "Gt": ">", "Eq": "==", "Equality": "==", "Ne": "!=", "Unequality": "!=",
}
# external callables whose arguments are canonicalised to keywords (name -> positional order)
EXTERNAL_SIGNATURES = {
    "D": ["j", "m", "mp", "alpha", "beta", "gamma"],  # sympy.physics.quantum.spin.Rotation.D
    "d": ["j", "m", "mp", "beta"],  # Rotation.d
    "CG": ["j1", "m1", "j2", "m2", "j3", "m3"],
    "WignerD": ["j", "m", "mp", "alpha", "beta", "gamma"],
}
IDENTITY_FUNCS = {"sympify", "_sympify", "S", "nsimplify", "Rational1"}
SYMPY_CONSTANTS = {"I": "I", "pi": "pi", "oo": "oo"}
# standard-library callables that are folded over term values (see TermEval._stdlib)
STDLIB_ARITH = {"add": ast.Add, "sub": ast.Sub, "mul": ast.Mult, "truediv": ast.Div, "pow": ast.Pow, "matmul": ast.MatMult}
STDLIB_REL = {"lt": "<", "le": "<=", "gt": ">", "ge": ">=", "eq": "==", "ne": "!="}
STDLIB_FOLDS = {
    "functools.reduce", "functools.partial", "math.prod", "itertools.chain", "itertools.chain.from_iterable",
    "itertools.product", "itertools.starmap", "itertools.combinations", "itertools.permutations", "itertools.zip_longest",
}
BUILTIN_FOLDS = {"sum", "map", "zip", "enumerate", "reversed", "tuple", "list", "len", "dict"}


class TermEval:
    def __init__(self, tree: Tree, inline_depth: int = 4) -> None:
        self.tree = tree
        self.classes: dict[str, ExprClass] = expression_classes(tree)
        self.apps: dict[Any, AppInfo] = {}
        self.inline_depth = inline_depth
        # when True, an `if` on a non-constant test forks the evaluation: the function value becomes
        # PW([(value on the true path, test), (value on the false path, else)]).  Only checks that
        # judge every path separately may switch this on (a PW inside arithmetic is opaque).
        self.fork = False
        self.symbol_assumptions: dict[str, dict] = {}
        self.module_values: dict[str, Any] = {}  # qualname of a module-level name -> its value (objects built at import time; set by a rule)
        self.symbol_constructions: dict[str, list] = {}  # name -> [(constructor, assumptions)] of every evaluated construction
        # hooks: qualname -> callable(evaluator, args, kwargs) overriding inlining
        self.overrides: dict[str, Callable] = {}
        # App atom of a plain record object -> (class, [(field, value)]) (see _record_fields)
        self.records: dict[Any, tuple] = {}
        # raise-only guard clauses that were passed over because their test is not decided by the constants at hand
        # (a rule that concludes "the function accepts these arguments" must find this list empty)
        self.skipped_guards: list[str] = []

    # ------------------------------------------------------------------ atoms
    def app(self, name: str, args: list, kwargs: dict | None = None) -> RF:
        kwargs = kwargs or {}
        key = ("app", name, tuple(vkey(a) for a in args), tuple(sorted((k, vkey(v)) for k, v in kwargs.items())))
        self.apps[key] = AppInfo(name, list(args), dict(kwargs))
        return RF.atom(key)

    def is_app(self, atom, cls_suffix: str | None = None) -> bool:
        return isinstance(atom, tuple) and atom and atom[0] == "app" and (cls_suffix is None or atom[1].endswith(cls_suffix))

    def single_atom(self, v: RF):
        """If ``v`` is exactly one atom (coefficient 1), return it."""
        r = v.normalized()
        if r.d.is_const() and r.d.const_value() == 1 and len(r.n.t) == 1:
            ((m, c),) = r.n.t.items()
            if c == 1 and len(m) == 1 and m[0][1] == 1:
                return m[0][0]
        return None

    # ------------------------------------------------------------ expressions
    def ev(self, node: ast.AST, env: dict, fn: FuncInfo | None = None, depth: int = 0):
        m = getattr(self, f"_ev_{type(node).__name__}", None)
        if m is None:
            raise ExtractionError(f"outside term grammar: {type(node).__name__} `{unparse(node)[:60]}`")
        return m(node, env, fn, depth)

    def _ev_Constant(self, node, env, fn, depth):
        v = node.value
        if isinstance(v, bool) or v is None or isinstance(v, str):
            return Opaque(v)
        if isinstance(v, int):
            return RF.const(v)
        if isinstance(v, float):
            return RF.const(Fraction(str(v)))
        raise ExtractionError(f"constant {v!r}")

    def _ev_Name(self, node, env, fn, depth):
        if node.id in env:
            return env[node.id]
        # module-level name: class / function / constant
        if fn is not None:
            target = self.tree.resolve(fn.module, node, fn)
            if target:
                if target in self.module_values:
                    return self.module_values[target]  # a module-level object a rule evaluated beforehand (opt-in)
                table = self._module_table(target)
                if table is not None:
                    return self._from_py(table)
                return Opaque(("ref", target))
        raise ExtractionError(f"unbound name `{node.id}`")

    def _module_table(self, target: str):
        """The value of a module-level constant TABLE (a tuple display of ints / strings / tuples, bound once at
        module level): a loop or a membership test over `_CYCLIC_PAIRS` reads the same as over the literal."""
        cache = self.__dict__.setdefault("_table_cache", {})
        if target not in cache:
            cache[target] = self._module_table_uncached(target)
        return cache[target]

    def _module_table_uncached(self, target: str):
        mod_name, sep, name = target.partition("::")
        mod = self.tree.modules.get(mod_name) if sep else None
        if mod is None or "." in name or target in self.tree.funcs or target in self.tree.classes:
            return None
        st = mod.toplevel.get(name)
        value = getattr(st, "value", None)
        # (integers and texts only: a float threshold such as `_EPS = 1e-6` stays an opaque named constant, as before)
        scalar = isinstance(value, ast.Constant) and isinstance(value.value, (int, str)) and not isinstance(value.value, bool) or (
            isinstance(value, ast.UnaryOp) and isinstance(value.op, ast.USub) and isinstance(value.operand, ast.Constant) and type(value.operand.value) is int)
        if isinstance(st, (ast.Assign, ast.AnnAssign)) and scalar:
            # a module-level number / text bound exactly once (`_INSIDE_VALUE = 1`): the name reads as the literal
            bindings = [n for n in ast.walk(mod.tree) if isinstance(n, ast.Name) and n.id == name and isinstance(n.ctx, (ast.Store, ast.Del))]
            rebinds = [n for n in ast.walk(mod.tree) if isinstance(n, (ast.Global, ast.Nonlocal)) and name in n.names]
            if len(bindings) != 1 or rebinds:
                return None
            return value.value if isinstance(value, ast.Constant) else -value.operand.value
        if not isinstance(st, (ast.Assign, ast.AnnAssign)) or not isinstance(value, (ast.Tuple, ast.Set, ast.List, ast.Call)):
            return None
        for n in ast.walk(value):
            if isinstance(n, ast.Call) and not (isinstance(n.func, ast.Name) and n.func.id in {"frozenset", "tuple"} and len(n.args) == 1 and not n.keywords):
                return None
            if not isinstance(n, (ast.Tuple, ast.Set, ast.List, ast.Constant, ast.UnaryOp, ast.USub, ast.Load, ast.Call, ast.Name)):
                return None
            if isinstance(n, ast.Name) and n.id not in {"frozenset", "tuple"}:
                return None
        bindings = [n for n in ast.walk(mod.tree) if isinstance(n, ast.Name) and n.id == name and isinstance(n.ctx, (ast.Store, ast.Del))]
        rebinds = [n for n in ast.walk(mod.tree) if isinstance(n, (ast.Global, ast.Nonlocal)) and name in n.names]
        # a list / set display is a constant table only if nothing in the module can change it: no method is called
        # on the name, it is never subscript-assigned (reading it, iterating it, `in` are fine)
        touched = [n for n in ast.walk(mod.tree) if isinstance(n, ast.Attribute) and isinstance(n.value, ast.Name) and n.value.id == name and n.attr not in {"__len__", "__contains__", "index", "count"}]
        touched += [n for n in ast.walk(mod.tree) if isinstance(n, ast.Subscript) and isinstance(n.value, ast.Name) and n.value.id == name and isinstance(n.ctx, (ast.Store, ast.Del))]
        if not isinstance(value, ast.Tuple) and touched:
            return None
        if len(bindings) != 1 or rebinds:
            # bound more than once somewhere in the module (a local of the same name counts: that is the cautious side)
            return None
        try:
            return self.const(value, {}, None)
        except TermEval.NotConst:
            return None

    def _ev_UnaryOp(self, node, env, fn, depth):
        v = self.ev(node.operand, env, fn, depth)
        if isinstance(node.op, ast.USub):
            if isinstance(v, Mat):
                return Mat([[-e for e in r] for r in v.rows])
            return -self._rf(v, node)
        if isinstance(node.op, ast.UAdd):
            return v
        if isinstance(node.op, ast.Not):
            return Opaque(("not", vkey(v)))
        if isinstance(node.op, ast.Invert) and isinstance(v, (Rel, Logic)):
            return Logic("not", [v])
        raise ExtractionError(f"unary {type(node.op).__name__}")

    def _rf(self, v, node=None) -> RF:
        if isinstance(v, RF):
            return v
        if isinstance(v, (int, Fraction)):
            return RF.const(v)
        if isinstance(v, Opaque) and isinstance(v.key, tuple) and v.key and v.key[0] in {"ref", "attr"}:
            return RF.atom(("sym", v.key))
        if isinstance(v, PW):
            # a Piecewise inside arithmetic: one opaque application over its branches
            return self.app("Piecewise", [Tup([val, cond]) for val, cond in v.branches])
        raise ExtractionError(f"scalar expected, got {type(v).__name__} in `{unparse(node)[:60] if node is not None else ''}`")

    def _ev_BinOp(self, node, env, fn, depth):
        lhs = self.ev(node.left, env, fn, depth)
        rhs = self.ev(node.right, env, fn, depth)
        return self._arith(node.op, lhs, rhs, node)

    def _arith(self, op, lhs, rhs, node=None):
        """``lhs op rhs`` on values (shared by the operator syntax, ``operator.add`` ..., ``sum`` and ``reduce``)."""
        if not isinstance(node, ast.BinOp):
            node = ast.BinOp(left=ast.Constant(value=None), op=op, right=ast.Constant(value=None))
        if isinstance(lhs, Opaque) and isinstance(lhs.key, str) and not isinstance(lhs.key, bool):
            # string building: concatenation and %-formatting over constants
            if isinstance(op, ast.Add) and isinstance(rhs, Opaque) and isinstance(rhs.key, str):
                return Opaque(lhs.key + rhs.key)
            if isinstance(op, ast.Mod):
                try:
                    return Opaque(lhs.key % self._to_py(rhs))
                except TermEval.NotConst:
                    raise ExtractionError(f"%-formatting of `{lhs.key}` with a value that is not a constant") from None
                except (TypeError, ValueError) as exc:
                    raise RaisedError(f"%-formatting of `{lhs.key}` raises {type(exc).__name__}") from None
        if isinstance(op, (ast.BitAnd, ast.BitOr)) and isinstance(lhs, (Rel, Logic)) and isinstance(rhs, (Rel, Logic)):
            return Logic("and" if isinstance(op, ast.BitAnd) else "or", [lhs, rhs])
        if isinstance(lhs, Tup) and isinstance(rhs, Tup) and isinstance(op, ast.Add):
            return Tup([*lhs.items, *rhs.items])  # concatenation of tuple / list values
        if isinstance(lhs, frozenset) and isinstance(rhs, frozenset) and isinstance(op, (ast.Sub, ast.BitOr, ast.BitAnd, ast.BitXor)):
            return {ast.Sub: lhs - rhs, ast.BitOr: lhs | rhs, ast.BitAnd: lhs & rhs, ast.BitXor: lhs ^ rhs}[type(op)]
        if isinstance(lhs, Mat) or isinstance(rhs, Mat):
            return self._mat_binop(node, lhs, rhs)
        lv, rv = self._rf(lhs, node.left), self._rf(rhs, node.right)
        if isinstance(op, ast.Add):
            return lv + rv
        if isinstance(op, ast.Sub):
            return lv - rv
        if isinstance(op, ast.Mult):
            return lv * rv
        if isinstance(op, ast.Div):
            return lv / rv
        if isinstance(op, ast.Pow):
            return lv**rv
        if isinstance(op, (ast.Mod, ast.FloorDiv)) and lv.is_const() and rv.is_const():
            # index arithmetic over integer constants (`masses[(i + shift) % n]`)
            a, b = lv.const_value(), rv.const_value()
            if a.denominator == 1 and b.denominator == 1 and b != 0:
                return RF.const(int(a) % int(b) if isinstance(op, ast.Mod) else int(a) // int(b))
        raise ExtractionError(f"binary operator {type(op).__name__}")

    def _mat_binop(self, node, lhs, rhs):
        op = node.op
        if isinstance(lhs, Mat) and isinstance(rhs, Mat):
            if isinstance(op, (ast.Mult, ast.MatMult)):
                return lhs.matmul(rhs)
            if isinstance(op, (ast.Add, ast.Sub)):
                f = (lambda a, b: a + b) if isinstance(op, ast.Add) else (lambda a, b: a - b)
                if lhs.shape != rhs.shape:
                    raise RaisedError(f"matrix sum of shapes {lhs.shape} and {rhs.shape} raises ShapeError")
                return Mat([[f(a, b) for a, b in zip(r1, r2)] for r1, r2 in zip(lhs.rows, rhs.rows)])
        # a scalar factor / divisor applies to every entry (`gamma * sp.Matrix(...)`, `m / 2`)
        if isinstance(lhs, Mat) and isinstance(op, (ast.Mult, ast.Div)):
            k = self._rf(rhs, node.right)
            return Mat([[(e * k if isinstance(op, ast.Mult) else e / k) for e in r] for r in lhs.rows])
        if isinstance(rhs, Mat) and isinstance(op, ast.Mult):
            k = self._rf(lhs, node.left)
            return Mat([[k * e for e in r] for r in rhs.rows])
        raise ExtractionError("matrix operation outside grammar")

    def _ev_Compare(self, node, env, fn, depth):
        if len(node.ops) != 1:
            raise ExtractionError("chained comparison")
        ops = {ast.Lt: "<", ast.LtE: "<=", ast.Gt: ">", ast.GtE: ">=", ast.Eq: "==", ast.NotEq: "!=", ast.Is: "is", ast.IsNot: "is not"}
        op = ops.get(type(node.ops[0]))
        if op is None:
            raise ExtractionError(f"comparison {type(node.ops[0]).__name__}")
        return Rel(op, self.ev(node.left, env, fn, depth), self.ev(node.comparators[0], env, fn, depth))

    def _ev_Tuple(self, node, env, fn, depth):
        items = []
        for e in node.elts:
            if isinstance(e, ast.Starred):
                items.extend(self._sequence(self.ev(e.value, env, fn, depth), f"starred element `*{unparse(e.value)[:40]}`"))
            else:
                items.append(self.ev(e, env, fn, depth))
        return Tup(items)

    _ev_List = _ev_Tuple

    def _ev_JoinedStr(self, node, env, fn, depth):
        parts = []
        for v in node.values:
            if isinstance(v, ast.Constant):
                parts.append(str(v.value))
            else:
                try:
                    parts.append(str(self.const(v.value, env, fn)))
                    continue
                except (TermEval.NotConst, ExtractionError):
                    pass
                val = self.ev(v.value, env, fn, depth)
                parts.append(self._to_text(val, v.value))
        return Opaque("".join(parts))

    def _to_text(self, val, node) -> str:
        if isinstance(val, Opaque) and isinstance(val.key, (str, int)):
            return str(val.key)
        if isinstance(val, RF) and val.is_const():
            c = val.const_value()
            return str(c.numerator) if c.denominator == 1 else str(c)
        if isinstance(val, RF):
            a = self.single_atom(val)
            if isinstance(a, str):
                return "{" + a + "}"
        if isinstance(val, Opaque):
            return "<" + re.sub(r"[^A-Za-z0-9_.]+", "_", repr(val.key)) + ">"
        raise ExtractionError(f"f-string placeholder `{unparse(node)}` is not a constant")

    def _ev_Attribute(self, node, env, fn, depth):
        # sp.I, sp.pi, sp.S.One ...
        chain = _attr_chain(node)
        if chain:
            head, *rest = chain.split(".")
            if head in env:
                base = env[head]
                if head in {"self", "cls"} and isinstance(base, dict) and len(rest) == 1 and rest[0] not in base and fn is not None:
                    target = self.tree.resolve(fn.module, node, fn)
                    if target in self.tree.funcs:  # a method of the class, not a field: the bound method
                        decorators = {unparse(d) for d in self.tree.funcs[target].node.decorator_list}
                        if decorators & {"property", "cached_property", "functools.cached_property"} and head == "self":
                            if depth >= self.inline_depth:
                                raise ExtractionError(f"inlining depth exceeded at {target}")
                            return self.eval_function(self.tree.funcs[target], [base], {}, depth + 1)  # `self.tensors`: the property's value
                        static = "staticmethod" in decorators
                        return Bound(target, None if static else base)
                return self._attr_of(base, rest, node)
            if fn is not None:
                target = self.tree.resolve(fn.module, node, fn)
                if target:
                    if target.startswith("string.") and isinstance(getattr(_string, target.split(".", 1)[1], None), str):
                        return Opaque(getattr(_string, target.split(".", 1)[1]))  # string.ascii_lowercase ...
                    if target.startswith("sympy."):
                        name = target.split(".")[-1]
                        if name in SYMPY_CONSTANTS:
                            return RF.atom(SYMPY_CONSTANTS[name])
                        if name in {"One"}:
                            return RF.const(1)
                        if name in {"Zero"}:
                            return RF.const(0)
                        if name in {"Half"}:
                            return RF.const(Fraction(1, 2))
                        if name in {"NegativeOne"}:
                            return RF.const(-1)
                        if name in {"true", "false"}:
                            return Opaque(name == "true")
                    return Opaque(("ref", target))
        base = self.ev(node.value, env, fn, depth)
        return self._attr_of(base, [node.attr], node)

    def _attr_of(self, base, attrs: list[str], node):
        for a in attrs:
            if isinstance(base, dict):  # struct (self with fields)
                if a in base:
                    base = base[a]
                    continue
                bound = self._object_method(base, a)
                if bound is not None:
                    base = bound
                    continue
                raise ExtractionError(f"unknown attribute .{a} in `{unparse(node)}`")
            if isinstance(base, RF):
                rec = self.record_of(base)
                if rec is not None and a in dict(rec[1]):
                    base = dict(rec[1])[a]
                    continue
                if rec is not None:
                    # a method of the record class (`masses.sum_of_squares`): bound to the record
                    m = self.tree.lookup_method(rec[0], a)
                    if m is not None and any(unparse(d).split(".")[-1] in {"property", "cached_property"} for d in m.node.decorator_list) and len(m.params) == 1:
                        base = self.eval_function(m, [base])  # a property of the record: what its body returns for this record
                        continue
                    if m is not None and not any(unparse(d).split(".")[-1] in {"property", "cached_property", "classmethod"} for d in m.node.decorator_list):
                        base = Bound(m.qual, None if any(unparse(d) == "staticmethod" for d in m.node.decorator_list) else base)
                        continue
                atom = self.single_atom(base)
                if self.is_app(atom) and atom in self.apps and self.apps[atom].cls in self.classes:
                    # `b = self.evaluate(); b.b01`: a field of an instance of a repo expression class is the value
                    # the constructor was given (the decorator stores the sympified argument under the field's name)
                    info = self.apps[atom]
                    names = [f.name for f in self.classes[info.cls].sympy_fields]
                    if a in names:
                        base = info.args[names.index(a)]
                        continue
                    if a == "args":
                        base = Tup(list(info.args))
                        continue
                    if a in info.kwargs:
                        base = info.kwargs[a]
                        continue
                if atom is not None and isinstance(atom, (str, tuple)):
                    key = atom if not (isinstance(atom, tuple) and atom[0] == "sym") else atom[1]
                    base = RF.atom(("sym", ("attr", key, a)))
                    continue
            if isinstance(base, Opaque):
                base = Opaque(("attr", base.key, a))
                continue
            if isinstance(base, Mat) and a == "T":
                base = base.transpose()
                continue
            raise ExtractionError(f"attribute .{a} of {type(base).__name__} in `{unparse(node)}`")
        return base

    def _ev_Subscript(self, node, env, fn, depth):
        base = self.ev(node.value, env, fn, depth)
        if isinstance(base, Mat) and (isinstance(node.slice, ast.Slice) or (isinstance(node.slice, ast.Tuple) and any(isinstance(e, ast.Slice) for e in node.slice.elts))):
            rows, cols, _ = self._mat_ranges(base, node.slice, env, fn, node)
            return Mat([[base.rows[i][j] for j in cols] for i in rows])  # `m[1:, 1:]`, `m[0, :]`: the block (a matrix)
        if isinstance(node.slice, ast.Slice):
            # `letters[1:]`, `t[k : k + 2]`: a slice with constant bounds of a tuple / list / string value
            try:
                lo, hi, step = (None if b is None else self.const(b, env, fn) for b in (node.slice.lower, node.slice.upper, node.slice.step))
            except TermEval.NotConst:
                raise ExtractionError(f"slice `{unparse(node)[:50]}` with bounds that are not constants") from None
            if not all(b is None or (isinstance(b, int) and not isinstance(b, bool)) for b in (lo, hi, step)) or step == 0:
                raise ExtractionError(f"slice `{unparse(node)[:50]}` with bounds that are not integers")
            if isinstance(base, Tup):
                return Tup(base.items[lo:hi:step])
            if isinstance(base, Opaque) and isinstance(base.key, str) and not isinstance(base.key, bool):
                return Opaque(base.key[lo:hi:step])
            rec = self.record_of(base)
            if rec is not None and any(b.split(".")[-1] == "NamedTuple" for b in rec[0].bases):
                return Tup([v for _f, v in rec[1]][lo:hi:step])  # a NamedTuple slices like the tuple of its fields
            raise ExtractionError(f"slice `{unparse(node)[:50]}` of a value that is not a tuple / list / string")
        idx = self.ev(node.slice, env, fn, depth)
        if self.record_of(base) is not None and isinstance(idx, RF) and idx.is_const():
            base = Tup(self._sequence(base, f"`{unparse(node)[:40]}`"))
        if isinstance(base, Tup):
            if isinstance(idx, RF) and idx.is_const():
                return base.items[int(idx.const_value())]
            raise ExtractionError("non-constant tuple index")
        if isinstance(base, Mat):
            if isinstance(idx, Tup) and all(isinstance(i, RF) and i.is_const() for i in idx.items):
                i, j = (int(x.const_value()) for x in idx.items)
                return base.rows[i][j]
            raise ExtractionError("matrix index")
        if isinstance(base, dict) and isinstance(idx, RF) and idx.is_const():
            return base[int(idx.const_value())]
        if isinstance(base, DictV):
            found = base.get(idx)
            if found is not None:
                return found
            try:
                self._to_py(idx)
                for k, _ in base.items:
                    self._to_py(k)
            except TermEval.NotConst:
                raise ExtractionError(f"`{unparse(node)[:50]}`: the key is not among the entries of the dict value") from None
            raise RaisedError(f"`{unparse(node)[:50]}` raises KeyError for these constants")
        idx_items = idx.items if isinstance(idx, Tup) else [idx]
        if isinstance(base, Opaque) and isinstance(base.key, tuple) and base.key[0] in {"ref", "attr"}:
            return RF.atom(("sym", ("attr", base.key, ("idx", tuple(vkey(i) for i in idx_items)))))
        bkey = vkey(self._rf(base, node.value))
        return RF.atom(("idx", bkey, tuple(vkey(i) for i in idx_items)))

    def _ev_IfExp(self, node, env, fn, depth):
        # decided by constant propagation (a flag of the abstract `self`, an index): the value of the taken arm
        try:
            decided = self.const(node.test, env, fn)
        except TermEval.NotConst:
            decided = None
        if isinstance(decided, bool):
            return self.ev(node.body if decided else node.orelse, env, fn, depth)
        raise ExtractionError("conditional expression")

    def _ev_Lambda(self, node, env, fn, depth):
        return Lam(node, env, fn)

    def _ev_NamedExpr(self, node, env, fn, depth):
        val = self.ev(node.value, env, fn, depth)
        self._assign(node.target, val, env, fn, depth)
        return val

    def _ev_Set(self, node, env, fn, depth):
        try:
            return self.const(node, env, fn)
        except TermEval.NotConst:
            raise ExtractionError(f"outside term grammar: set display over terms `{unparse(node)[:50]}`") from None

    def _ev_DictComp(self, node, env, fn, depth):
        pairs = self._ev_GeneratorExp(ast.GeneratorExp(elt=ast.Tuple(elts=[node.key, node.value], ctx=ast.Load()), generators=node.generators), env, fn, depth)
        items: list = []
        for p in pairs.items:
            k, v = p.items
            items = [(a, b) for a, b in items if vkey(a) != vkey(k)] + [(k, v)]
        return DictV(items)

    def _ev_BoolOp(self, node, env, fn, depth):
        vals = [self.ev(v, env, fn, depth) for v in node.values]
        return Opaque((type(node.op).__name__.lower(), tuple(vkey(v) for v in vals)))

    def _mat_ranges(self, m: "Mat", index: ast.AST, env, fn, node) -> tuple[list, list, bool]:
        """Row and column numbers that a matrix index `[i, j]` / `[a:b, c:d]` / `[i, c:d]` addresses (constants
        only), and whether it names ONE entry."""
        n_rows, n_cols = m.shape

        def axis(part, n) -> tuple[list, bool]:
            if isinstance(part, ast.Slice):
                try:
                    lo, hi, step = (None if b is None else self.const(b, env, fn) for b in (part.lower, part.upper, part.step))
                except TermEval.NotConst:
                    raise ExtractionError(f"matrix index `{unparse(node)[:50]}` with bounds that are not constants") from None
                if not all(b is None or (isinstance(b, int) and not isinstance(b, bool)) for b in (lo, hi, step)) or step == 0:
                    raise ExtractionError(f"matrix index `{unparse(node)[:50]}` with bounds that are not integers")
                return list(range(n))[lo:hi:step], False
            try:
                k = self.const(part, env, fn)
            except TermEval.NotConst:
                raise ExtractionError(f"matrix index `{unparse(node)[:50]}` is not a constant") from None
            if not isinstance(k, int) or isinstance(k, bool):
                raise ExtractionError(f"matrix index `{unparse(node)[:50]}` is not an integer")
            if not -n <= k < n:
                raise RaisedError(f"`{unparse(node)[:50]}` raises IndexError")
            return [k % n], True

        if isinstance(index, ast.Tuple) and len(index.elts) == 2:
            (rows, one_row), (cols, one_col) = axis(index.elts[0], n_rows), axis(index.elts[1], n_cols)
            return rows, cols, one_row and one_col
        raise ExtractionError(f"matrix index `{unparse(node)[:50]}` is not a pair `[rows, columns]`")

    def _dim(self, v) -> int:
        """A matrix dimension: a non-negative constant integer."""
        if isinstance(v, RF) and v.is_const() and v.const_value().denominator == 1 and 0 <= v.const_value() <= 64:
            return int(v.const_value())
        raise ExtractionError("matrix dimension is not a small constant integer")

    def _sequence(self, v, what: str) -> list:
        """The elements, in iteration order, of a collection value of known length and order."""
        if isinstance(v, Tup):
            return list(v.items)
        if isinstance(v, DictV):
            return [k for k, _ in v.items]
        rec = self.record_of(v)
        if rec is not None and any(b.split(".")[-1] == "NamedTuple" for b in rec[0].bases):
            return [x for _, x in rec[1]]
        if isinstance(v, frozenset):
            if len(v) <= 1:
                return [self._from_py(x) for x in v]
            raise ExtractionError(f"{what}: the iteration order of a set with {len(v)} elements is not determined")
        if isinstance(v, Opaque) and isinstance(v.key, str) and not isinstance(v.key, bool):
            return [Opaque(c) for c in v.key]
        raise ExtractionError(f"{what}: not a collection of known length and order")

    def _ev_GeneratorExp(self, node, env, fn, depth):
        """A comprehension over collections of known length and order (tuple / list values): the tuple of its
        element values in iteration order.  Filters must be decidable over constants."""
        out: list = []

        def rec(gens, env_):
            if not gens:
                out.append(self.ev(node.elt, env_, fn, depth))
                return
            g = gens[0]
            if g.is_async:
                raise ExtractionError("async comprehension")
            try:
                seq = self.ev(g.iter, env_, fn, depth)
            except ExtractionError as exc:
                if isinstance(exc, RaisedError):
                    raise
                try:
                    seq = self._from_py(self.const(g.iter, env_, fn))
                except TermEval.NotConst:
                    raise exc from None
            seq = Tup(self._sequence(seq, f"comprehension over `{unparse(g.iter)[:50]}`"))
            for item in seq.items:
                env2 = dict(env_)
                self._assign(g.target, item, env2, fn, depth)
                keep = True
                for cond in g.ifs:
                    try:
                        decided = self.const(cond, env2, fn)
                    except TermEval.NotConst:
                        raise ExtractionError(f"comprehension filter `{unparse(cond)[:50]}` is not decidable over constants") from None
                    if not decided:
                        keep = False
                        break
                if keep:
                    rec(gens[1:], env2)

        rec(list(node.generators), env)
        return Tup(out)

    _ev_ListComp = _ev_GeneratorExp

    def _ev_Dict(self, node, env, fn, depth):
        items = []
        for k, v in zip(node.keys, node.values):
            if k is None:
                # `{**a, k: v}`: the entries of a dict value, later entries replacing earlier ones with an equal key
                other = self.ev(v, env, fn, depth)
                if not isinstance(other, DictV):
                    raise ExtractionError("dict unpacking of a value that is not a dict display")
                new = list(other.items)
            else:
                new = [(self.ev(k, env, fn, depth), self.ev(v, env, fn, depth))]
            for kk, vv in new:
                items = [(a, b) for a, b in items if vkey(a) != vkey(kk)] + [(kk, vv)]
        return DictV(items)

    # ------------------------------------------------------------------ calls
    def _ev_Call(self, node: ast.Call, env, fn, depth):
        func = node.func
        # method calls on values: x.doit(), m.inv(), q.evaluate()
        if isinstance(func, ast.Attribute):
            chain = _attr_chain(func)
            head = chain.split(".")[0] if chain else None
            if head is None or head in env:
                recv_known = True
            else:
                recv_known = False
            if recv_known and func.attr in {"doit", "simplify", "expand"} and not node.args:
                return self.ev(func.value, env, fn, depth)
            if recv_known and func.attr == "transpose" and not node.args:
                v = self.ev(func.value, env, fn, depth)
                if isinstance(v, Mat):
                    return v.transpose()
            if recv_known and func.attr in {"row_join", "col_join", "row", "col", "applyfunc", "multiply_elementwise", "dot"} and len(node.args) == 1 and not node.keywords:
                try:
                    v = self.ev(func.value, env, fn, depth)
                except ExtractionError as exc:
                    if isinstance(exc, RaisedError):
                        raise
                    v = None
                if isinstance(v, Mat):
                    arg = self.ev(node.args[0], env, fn, depth)
                    if func.attr in {"row", "col"}:
                        k = self._dim(arg) if isinstance(arg, RF) and arg.is_const() and arg.const_value() >= 0 else None
                        if k is None or k >= (v.shape[0] if func.attr == "row" else v.shape[1]):
                            raise ExtractionError(f"`{unparse(node)[:50]}`: row / column number is not a constant in range")
                        return Mat([list(v.rows[k])]) if func.attr == "row" else Mat([[r[k]] for r in v.rows])
                    if func.attr == "applyfunc":
                        return Mat([[self._rf(self.apply(arg, [e], {}, env, fn, depth)) for e in r] for r in v.rows])
                    if not isinstance(arg, Mat):
                        raise ExtractionError(f"`{unparse(node)[:50]}`: the argument is not a matrix value")
                    if func.attr == "row_join" and arg.shape[0] == v.shape[0]:
                        return Mat([[*r1, *r2] for r1, r2 in zip(v.rows, arg.rows)])
                    if func.attr == "col_join" and arg.shape[1] == v.shape[1]:
                        return Mat([*[list(r) for r in v.rows], *[list(r) for r in arg.rows]])
                    if func.attr == "multiply_elementwise" and arg.shape == v.shape:
                        return Mat([[a * b for a, b in zip(r1, r2)] for r1, r2 in zip(v.rows, arg.rows)])
                    if func.attr == "dot" and 1 in v.shape and 1 in arg.shape and max(v.shape) == max(arg.shape):
                        xs = [e for r in v.rows for e in r]
                        ys = [e for r in arg.rows for e in r]
                        return sum((a * b for a, b in zip(xs, ys)), RF.const(0))
                    raise RaisedError(f"`{unparse(node)[:50]}` raises ShapeError")
            if recv_known and func.attr in {"copy", "as_mutable", "as_immutable", "as_explicit"} and not node.args and not node.keywords:
                try:
                    v = self.ev(func.value, env, fn, depth)
                except ExtractionError as exc:
                    if isinstance(exc, RaisedError):
                        raise
                    v = None
                if isinstance(v, Mat):
                    return Mat([list(r) for r in v.rows])  # a fresh matrix with the same entries
            if func.attr in {"get", "items", "keys", "values", "copy", "format"} and (recv_known or isinstance(func.value, (ast.Constant, ast.JoinedStr, ast.Dict, ast.DictComp))):
                try:
                    recv = self.ev(func.value, env, fn, depth)
                except ExtractionError as exc:
                    if isinstance(exc, RaisedError):
                        raise
                    recv = None
                if isinstance(recv, DictV) and func.attr != "format":
                    return self._dict_method(recv, func.attr, node, env, fn, depth)
                if isinstance(recv, Opaque) and isinstance(recv.key, str) and func.attr == "format":
                    fargs, fkwargs = self._args(node, env, fn, depth)
                    try:
                        return Opaque(recv.key.format(*[self._to_py(a) for a in fargs], **{k: self._to_py(v) for k, v in fkwargs.items()}))
                    except TermEval.NotConst:
                        raise ExtractionError(f"`{unparse(node)[:60]}`: str.format over values that are not constants") from None
                    except (IndexError, KeyError, ValueError) as exc:
                        raise RaisedError(f"`{unparse(node)[:60]}` raises {type(exc).__name__}") from None
        args = None
        callee = None
        if fn is not None:
            callee = self.tree.resolve(fn.module, func, fn)
        if isinstance(func, ast.Attribute) and isinstance(func.value, ast.Name) and func.value.id == "self" and isinstance(env.get("self"), dict):
            # `self.m(...)` inside a method inherited from a base class: the method of the INSTANCE's class (template
            # method pattern), when the abstract instance knows its class
            klass = env["self"].get("__class__")
            if isinstance(klass, Opaque) and isinstance(klass.key, tuple) and len(klass.key) == 2 and klass.key[0] == "ref" and klass.key[1] in self.tree.classes:
                for c in self.tree.mro(self.tree.classes[klass.key[1]]):
                    if func.attr in c.methods:
                        callee = c.methods[func.attr].qual
                        break
                    alias = next((st for st in c.node.body if isinstance(st, ast.Assign) and any(isinstance(t, ast.Name) and t.id == func.attr for t in st.targets)), None)
                    if alias is not None:
                        # `_take_root = ComplexSqrt` in the class body: the attribute is that callable (a class or a
                        # builtin is not bound to the instance; a plain function would be - outside the grammar)
                        target = self.tree.resolve(c.module, alias.value)
                        if target is None or target in self.tree.funcs:
                            raise ExtractionError(f"class attribute `{func.attr}` of {c.qual} is not a class / external callable")
                        args, kwargs = self._args(node, env, fn, depth)
                        return self.apply(Opaque(("ref", target)), args, kwargs, env, fn, depth)
        # a callable held in the environment (parameter / field): opaque application
        if callee is None:
            # a call of a builtin / a method of a constant over constants (`"".join(map(str, ids))`, `len(t)`)
            # is that constant: the same value whether it is written inside an f-string or passed to a helper
            try:
                return self._from_py(self.const(node, env, fn))
            except TermEval.NotConst:
                pass
            if isinstance(func, ast.Attribute) and func.attr in _TEXT_METHODS and not node.keywords and not any(isinstance(a, ast.Starred) for a in node.args):
                # `text.strip()` / `.replace(a, b)` / `.splitlines()` ... of a string value with constant arguments: folded
                try:
                    text = self.ev(func.value, env, fn, depth)
                except ExtractionError as exc:
                    if isinstance(exc, RaisedError):
                        raise
                    text = None
                if _is_text(text):
                    try:
                        targs = [self._to_py(self.ev(a, env, fn, depth)) for a in node.args]
                    except TermEval.NotConst:
                        raise ExtractionError(f"`{unparse(node)[:50]}`: string method with arguments that are not constants") from None
                    try:
                        out = getattr(text.key, func.attr)(*targs)
                    except (TypeError, ValueError) as exc:
                        raise RaisedError(f"`{unparse(node)[:50]}` raises {type(exc).__name__}") from None
                    return self._from_py(tuple(out) if isinstance(out, list) else out)
            if isinstance(func, ast.Attribute) and func.attr == "join" and len(node.args) == 1 and not node.keywords:
                # `sep.join(<strings built from values>)`: the joined string (the parts may come from slices, zip, helpers ...)
                try:
                    sep = self.ev(func.value, env, fn, depth)
                except ExtractionError as exc:
                    if isinstance(exc, RaisedError):
                        raise
                    sep = None
                if _is_text(sep):
                    parts = self._sequence(self.ev(node.args[0], env, fn, depth), f"`{unparse(node)[:50]}`")
                    if not all(_is_text(x) for x in parts):
                        raise ExtractionError(f"`{unparse(node)[:50]}`: str.join over values that are not strings")
                    return Opaque(sep.key.join(x.key for x in parts))
            fval = None
            try:
                fval = self.ev(func, env, fn, depth)
            except ExtractionError:
                fval = None
            known = isinstance(fval, Opaque) and isinstance(fval.key, tuple) and fval.key[0] == "ref" and (
                fval.key[1] in self.tree.funcs or fval.key[1] in self.tree.classes or fval.key[1].startswith("sympy.") or _is_stdlib(fval.key[1])
                or fval.key[1] in self.overrides  # a callable a rule gave a meaning to (e.g. an abstract protocol object)
            )
            if known:
                callee = fval.key[1]
            elif isinstance(fval, Bound):
                # the call of a bound method held in a local: the call of that method on that receiver
                if depth >= self.inline_depth:
                    raise ExtractionError(f"inlining depth exceeded at {fval.func}")
                args, kwargs = self._args(node, env, fn, depth)
                if fval.func in self.overrides:
                    return self.overrides[fval.func](self, args, kwargs)
                if fval.recv is not None:
                    args = [fval.recv, *args]
                return self.eval_function(self.tree.funcs[fval.func], args, kwargs, depth + 1)
            elif isinstance(fval, (Lam, Partial)) or (isinstance(fval, dict) and self._object_method(fval, "__call__") is not None):
                args, kwargs = self._args(node, env, fn, depth)
                return self.apply(fval, args, kwargs, env, fn, depth)
            elif fval is None and isinstance(func, ast.Name) and func.id in BUILTIN_FOLDS and func.id not in env:
                args, kwargs = self._args(node, env, fn, depth)
                return self._stdlib("builtins." + func.id, args, kwargs, env, fn, depth, node)
            elif fval is not None:
                args, kwargs = self._args(node, env, fn, depth)  # `*seq` / `**{...}` expanded: the callee receives the same arguments
                return self.app("call:" + repr(vkey(fval)), args, kwargs)
        if callee is None and isinstance(func, ast.Name) and func.id in {"int", "float"} and func.id not in env and len(node.args) == 1 and not node.keywords:
            return self.ev(node.args[0], env, fn, depth)  # the builtin conversion of a term: the term (as in `call`)
        if callee is None:
            raise ExtractionError(f"unresolved call `{unparse(node)[:70]}`")
        if callee in self.module_values:
            args, kwargs = self._args(node, env, fn, depth)
            return self.apply(self.module_values[callee], args, kwargs, env, fn, depth)
        return self.call(callee, node, env, fn, depth)

    def _args(self, node, env, fn, depth):
        args = []
        for a in node.args:
            if isinstance(a, ast.Starred):
                args.extend(self._sequence(self.ev(a.value, env, fn, depth), f"starred argument `*{unparse(a.value)[:40]}`"))
            else:
                args.append(self.ev(a, env, fn, depth))
        kwargs = {}
        for k in node.keywords:
            if k.arg is None:
                # **mapping: accepted when the mapping is a dict display with constant string keys
                mapping = self.ev(k.value, env, fn, depth)
                if not isinstance(mapping, DictV):
                    raise ExtractionError("**kwargs in call (not a literal dict)")
                for kk, vv in mapping.items:
                    if not (isinstance(kk, Opaque) and isinstance(kk.key, str)):
                        raise ExtractionError("**kwargs with non-constant keys")
                    if kk.key in kwargs:
                        raise ExtractionError(f"keyword {kk.key} given twice")
                    kwargs[kk.key] = vv
                continue
            if k.arg in kwargs:
                raise ExtractionError(f"keyword {k.arg} given twice")
            kwargs[k.arg] = self.ev(k.value, env, fn, depth)
        return args, kwargs

    def call(self, callee: str, node: ast.Call, env, fn, depth):
        name = callee.split(".")[-1].split("::")[-1]
        if callee in self.overrides:
            args, kwargs = self._args(node, env, fn, depth)
            return self.overrides[callee](self, args, kwargs)
        if callee.startswith("sympy."):
            return self._sympy_call(name, node, env, fn, depth)
        if callee in self.classes:
            args, kwargs = self._args(node, env, fn, depth)
            return self.construct(callee, args, kwargs)
        if callee in self.tree.classes:
            args, kwargs = self._args(node, env, fn, depth)
            if name == "ComplexSqrt":
                return self.app("ComplexSqrt", args[:1])
            made = self.app(name, args, kwargs)
            fields = self._record_fields(callee)
            if fields is not None:
                # a plain record (NamedTuple / dataclass / attrs class without converters or own constructor):
                # its fields are the constructor arguments, so `pair.first`, `pair[0]` and `a, b = pair` are those values
                names = [f for f, _ in fields]
                if len(args) > len(names) or set(kwargs) - set(names) or set(names[: len(args)]) & set(kwargs):
                    raise ExtractionError(f"{name}: arguments do not fit the fields {names}")
                bound = {**dict(zip(names, args)), **kwargs}
                for f, default in fields:
                    if f not in bound:
                        if default is None:
                            raise ExtractionError(f"{name}: missing field {f}")
                        bound[f] = self.ev(default, {}, None, depth) if isinstance(default, ast.Constant) else Opaque(("default", unparse(default)))
                self.records[self.single_atom(made)] = (self.tree.classes[callee], [(f, bound[f]) for f in names])
            return made
        if callee in self.tree.funcs:
            if depth >= self.inline_depth:
                raise ExtractionError(f"inlining depth exceeded at {callee}")
            args, kwargs = self._args(node, env, fn, depth)
            target = self.tree.funcs[callee]
            is_static = any(unparse(d) == "staticmethod" for d in target.node.decorator_list)
            if target.cls is not None and target.outer is None and not is_static and isinstance(node.func, ast.Attribute):
                recv = node.func.value
                if isinstance(recv, ast.Name) and recv.id in {"self", "cls"} and recv.id in env:
                    args = [env[recv.id], *args]
                elif not (isinstance(recv, ast.Name) and recv.id in {"self", "cls"}):
                    # Class.method(...) on a repo class: classmethod/static style without instance
                    if any(unparse(d) == "classmethod" for d in target.node.decorator_list):
                        args = [Opaque(("ref", target.cls.qual)), *args]
            if target.outer is not None:
                # closure: the nested function sees the enclosing environment
                inner_env = {**env, **self.bind_params(target, args, kwargs)}
                return self.eval_body(target.node.body, inner_env, target, depth + 1)
            return self.eval_function(target, args, kwargs, depth + 1)
        if callee in {"builtins.float", "builtins.int"} or name in {"float", "int"} and "::" not in callee:
            return self.ev(node.args[0], env, fn, depth)
        if _is_stdlib(callee):
            args, kwargs = self._args(node, env, fn, depth)
            return self._stdlib(callee, args, kwargs, env, fn, depth, node)
        raise ExtractionError(f"call of external `{callee}` outside grammar")

    # ----------------------------------------------- callable values, stdlib folds
    def apply(self, fval, args: list, kwargs: dict, env, fn, depth):
        """The call of a callable VALUE (a lambda, a functools.partial, a bound method, a reference to a package
        function / class / sympy constructor / operator.* held in a local or handed to map / reduce) on values."""
        if isinstance(fval, Partial):
            return self.apply(fval.func, [*fval.args, *args], {**fval.kwargs, **kwargs}, env, fn, depth)
        if isinstance(fval, dict) and self._object_method(fval, "__call__") is not None:
            fval = self._object_method(fval, "__call__")  # `obj(...)` is `obj.__call__(...)`
        if isinstance(fval, Lam) and isinstance(fval.node, ast.FunctionDef):
            # a nested `def` held as a value: its body on the bound parameters, in the environment it was written in
            info = self.tree.funcs.get(f"{fval.fn.qual}.{fval.node.name}") if fval.fn is not None else None
            if info is None:
                raise ExtractionError(f"nested function `{fval.node.name}` is not indexed")
            if depth >= self.inline_depth:
                raise ExtractionError(f"inlining depth exceeded at {info.qual}")
            return self.eval_body(fval.node.body, {**fval.env, **self.bind_params(info, args, kwargs)}, info, depth + 1)
        if isinstance(fval, Lam):
            a = fval.node.args
            if a.vararg or a.kwarg or a.kwonlyargs or a.posonlyargs or a.defaults:
                raise ExtractionError(f"`{unparse(fval.node)[:50]}`: lambda with star / keyword-only / default parameters")
            names = [p.arg for p in a.args]
            if len(args) > len(names):
                raise ExtractionError(f"`{unparse(fval.node)[:50]}`: too many arguments")
            bound = dict(zip(names, args))
            for k, v in kwargs.items():
                if k in bound or k not in names:
                    raise ExtractionError(f"`{unparse(fval.node)[:50]}`: argument {k} given twice / unknown")
                bound[k] = v
            if len(bound) != len(names):
                raise ExtractionError(f"`{unparse(fval.node)[:50]}`: missing arguments")
            return self.ev(fval.node.body, {**fval.env, **bound}, fval.fn, depth)
        if isinstance(fval, Bound):
            if depth >= self.inline_depth:
                raise ExtractionError(f"inlining depth exceeded at {fval.func}")
            if fval.func in self.overrides:
                return self.overrides[fval.func](self, args, kwargs)
            if fval.recv is not None:
                args = [fval.recv, *args]
            return self.eval_function(self.tree.funcs[fval.func], args, kwargs, depth + 1)
        if isinstance(fval, Opaque) and isinstance(fval.key, tuple) and len(fval.key) == 2 and fval.key[0] == "ref":
            target = fval.key[1]
            if target in self.overrides or target in self.tree.funcs or target in self.tree.classes or target.startswith("sympy.") or _is_stdlib(target):
                # the call `target(<arg 0>, ..., k=<kw k>)` with the values held under names no program can spell
                env2 = dict(env)
                pos, kws = [], []
                for i, v in enumerate(args):
                    env2[f"<arg {i}>"] = v
                    pos.append(ast.Name(id=f"<arg {i}>", ctx=ast.Load()))
                for k, v in kwargs.items():
                    env2[f"<kw {k}>"] = v
                    kws.append(ast.keyword(arg=k, value=ast.Name(id=f"<kw {k}>", ctx=ast.Load())))
                call = ast.Call(func=ast.Name(id=target.split(".")[-1].split("::")[-1], ctx=ast.Load()), args=pos, keywords=kws)
                return self.call(target, call, env2, fn, depth)
        raise ExtractionError(f"call of a value that is not a known callable: {fval!r:.60}")

    def _expand_starred(self, node: ast.Call, env, fn, depth):
        """``f(a, *t)`` with a tuple value ``t``: the call with the elements as positional arguments (the values are
        held under names no program can spell, so every call form sees plain arguments)."""
        env2 = dict(env)
        pos = []
        for n, a in enumerate(node.args):
            if not isinstance(a, ast.Starred):
                pos.append(a)
                continue
            items = self._sequence(self.ev(a.value, env, fn, depth), f"`*{unparse(a.value)[:40]}`")
            for i, v in enumerate(items):
                env2[f"<star {n}.{i}>"] = v
                pos.append(ast.Name(id=f"<star {n}.{i}>", ctx=ast.Load()))
        return ast.copy_location(ast.Call(func=node.func, args=pos, keywords=node.keywords), node), env2

    def _dict_method(self, d: "DictV", attr: str, node: ast.Call, env, fn, depth):
        if attr == "items" and not node.args:
            return Tup([Tup([k, v]) for k, v in d.items])
        if attr == "keys" and not node.args:
            return Tup([k for k, _ in d.items])
        if attr == "values" and not node.args:
            return Tup([v for _, v in d.items])
        if attr == "copy" and not node.args:
            return DictV(list(d.items))
        if attr == "get" and 1 <= len(node.args) <= 2 and not node.keywords:
            key = self.ev(node.args[0], env, fn, depth)
            found = d.get(key)
            if found is not None:
                return found
            try:
                self._to_py(key)
                for k, _ in d.items:
                    self._to_py(k)
            except TermEval.NotConst:
                raise ExtractionError(f"`{unparse(node)[:50]}`: the key is not among the entries of the dict value") from None
            return self.ev(node.args[1], env, fn, depth) if len(node.args) == 2 else Opaque(None)
        raise ExtractionError(f"dict method `{unparse(node)[:50]}` outside grammar")

    def _stdlib(self, name: str, args: list, kwargs: dict, env, fn, depth, node=None):
        """Standard-library callables folded over values: the result is the term the written-out code would build."""
        mod, _, short = name.rpartition(".")
        seq = lambda v, i=0: self._sequence(v, f"{name}(...) argument {i + 1}")  # noqa: E731
        if mod in {"operator", "_operator"}:
            if short in STDLIB_ARITH and len(args) == 2:
                return self._arith(STDLIB_ARITH[short](), args[0], args[1])
            if short in STDLIB_REL and len(args) == 2:
                return Rel(STDLIB_REL[short], args[0], args[1])
            if short == "neg" and len(args) == 1:
                return -self._rf(args[0])
            if short == "pos" and len(args) == 1:
                return args[0]
        if name == "functools.partial" and args:
            return Partial(args[0], list(args[1:]), dict(kwargs))
        if name == "functools.reduce" and 2 <= len(args) <= 3 and not kwargs:
            items = seq(args[1], 1)
            if len(args) == 3:
                acc = args[2]
            elif items:
                acc, items = items[0], items[1:]
            else:
                raise RaisedError("functools.reduce of an empty collection without initial value raises TypeError")
            for x in items:
                acc = self.apply(args[0], [acc, x], {}, env, fn, depth)
            return acc
        if name in {"builtins.sum", "math.prod"} and 1 <= len(args) <= 2 and set(kwargs) <= {"start"}:
            neutral = RF.const(0 if short == "sum" else 1)
            acc = args[1] if len(args) == 2 else kwargs.get("start", neutral)
            for x in seq(args[0]):
                acc = self._arith(ast.Add() if short == "sum" else ast.Mult(), acc, x)
            return acc
        if name == "builtins.map" and len(args) >= 2 and not kwargs:
            return Tup([self.apply(args[0], list(row), {}, env, fn, depth) for row in zip(*[seq(a, i + 1) for i, a in enumerate(args[1:])])])
        if name == "itertools.starmap" and len(args) == 2 and not kwargs:
            return Tup([self.apply(args[0], seq(row, 1), {}, env, fn, depth) for row in seq(args[1], 1)])
        if name == "builtins.zip" and set(kwargs) <= {"strict"}:
            cols = [seq(a, i) for i, a in enumerate(args)]
            if len({len(c) for c in cols}) > 1 and "strict" in kwargs:
                raise ExtractionError("zip(..., strict=...) over collections of different length")
            return Tup([Tup(list(row)) for row in zip(*cols)])
        if name == "itertools.zip_longest" and set(kwargs) <= {"fillvalue"}:
            cols = [seq(a, i) for i, a in enumerate(args)]
            fill = kwargs.get("fillvalue", Opaque(None))
            width = max((len(c) for c in cols), default=0)
            return Tup([Tup([c[i] if i < len(c) else fill for c in cols]) for i in range(width)])
        if name == "builtins.enumerate" and 1 <= len(args) <= 2 and set(kwargs) <= {"start"}:
            start = args[1] if len(args) == 2 else kwargs.get("start", RF.const(0))
            try:
                first = int(self._to_py(start))
            except (TermEval.NotConst, TypeError, ValueError):
                raise ExtractionError("enumerate with a start that is not a constant") from None
            return Tup([Tup([RF.const(first + i), x]) for i, x in enumerate(seq(args[0]))])
        if name == "builtins.reversed" and len(args) == 1 and not kwargs:
            return Tup(list(reversed(seq(args[0]))))
        if name in {"builtins.tuple", "builtins.list"} and len(args) <= 1 and not kwargs:
            return Tup(seq(args[0]) if args else [])
        if name == "builtins.len" and len(args) == 1 and not kwargs:
            return RF.const(len(seq(args[0])))
        if name == "builtins.dict" and len(args) <= 1:
            items: list = []
            if args and isinstance(args[0], DictV):
                items = list(args[0].items)
            elif args:
                for pair in seq(args[0]):
                    k, v = seq(pair)
                    items = [(a, b) for a, b in items if vkey(a) != vkey(k)] + [(k, v)]
            for k, v in kwargs.items():
                items = [(a, b) for a, b in items if vkey(a) != vkey(Opaque(k))] + [(Opaque(k), v)]
            return DictV(items)
        if name == "itertools.chain" and not kwargs:
            return Tup([x for i, a in enumerate(args) for x in seq(a, i)])
        if name == "itertools.chain.from_iterable" and len(args) == 1 and not kwargs:
            return Tup([x for a in seq(args[0]) for x in seq(a)])
        if name == "itertools.product" and set(kwargs) <= {"repeat"}:
            import itertools

            try:
                repeat = int(self._to_py(kwargs["repeat"])) if "repeat" in kwargs else 1
            except (TermEval.NotConst, TypeError, ValueError):
                raise ExtractionError("itertools.product with a repeat that is not a constant") from None
            return Tup([Tup(list(row)) for row in itertools.product(*[seq(a, i) for i, a in enumerate(args)], repeat=repeat)])
        if name in {"itertools.combinations", "itertools.permutations"} and 1 <= len(args) <= 2 and not kwargs:
            import itertools

            try:
                r = [int(self._to_py(args[1]))] if len(args) == 2 else []
            except (TermEval.NotConst, TypeError, ValueError):
                raise ExtractionError(f"{name} with a length that is not a constant") from None
            if name.endswith("combinations") and not r:
                raise ExtractionError("itertools.combinations without a length")
            return Tup([Tup(list(row)) for row in getattr(itertools, short)(seq(args[0]), *r)])
        raise ExtractionError(f"call of external `{name}` outside grammar" + (f": `{unparse(node)[:60]}`" if node is not None else ""))

    def _record_fields(self, cls_qual: str):
        """[(field, default expression | None)] in declaration order if the class is a plain record - a
        typing.NamedTuple, a @dataclass or an attrs class whose fields are bare annotations or have constant / name
        defaults (no converters, validators, factories) and that defines no constructor hook - else None."""
        cls = self.tree.classes[cls_qual]
        bases = [b.split(".")[-1] for b in cls.bases]
        decorators = {d.split(".")[-1].split("::")[-1] for d, _ in cls.decorators}
        is_tuple = "NamedTuple" in bases
        if not (is_tuple and len(bases) == 1) and not (decorators & {"dataclass", "define", "frozen", "mutable"} and not [b for b in bases if b != "object"]):
            return None
        if {"__init__", "__new__", "__post_init__", "__attrs_post_init__", "__attrs_pre_init__"} & set(cls.methods):
            return None
        fields = []
        for st in cls.node.body:
            if isinstance(st, ast.AnnAssign) and isinstance(st.target, ast.Name):
                if "ClassVar" in unparse(st.annotation):
                    continue
                if st.value is not None and not isinstance(st.value, (ast.Constant, ast.Name, ast.Attribute)):
                    return None
                fields.append((st.target.id, st.value))
            elif isinstance(st, ast.Assign):
                return None
        return fields

    def record_of(self, v):
        """(class, [(field, value)]) if the value is a plain record object built by this evaluator."""
        if isinstance(v, RF):
            atom = self.single_atom(v)
            if atom is not None and atom in self.records:
                return self.records[atom]
        return None

    def new_object(self, cls_qual: str, args: list, kwargs: dict, depth: int = 0) -> dict:
        """An OBJECT value of a plain repo class (opt-in: a rule installs it as the override of the class): the struct
        of the attributes that ``__init__`` stores on ``self`` (``self.x = v``, in place), tagged with its class, so
        that ``obj.x`` reads the attribute, ``obj.method`` is the bound method and ``obj(...)`` is ``obj.__call__(...)``
        - whether the object is built with keywords, positionally, through ``**options`` or ``functools.partial``."""
        obj: dict = {"__class__": Opaque(("ref", cls_qual))}
        init = self.tree.lookup_method(self.tree.classes[cls_qual], "__init__")
        if init is None:
            if args or kwargs:
                raise ExtractionError(f"{cls_qual}: constructor arguments but no __init__ in the package")
            return obj
        try:
            self.eval_function(init, [obj, *args], kwargs, depth + 1)
        except NoReturn:
            pass
        else:
            raise ExtractionError(f"{cls_qual}.__init__ returns a value")
        return obj

    def _object_method(self, obj: dict, name: str):
        """The bound method ``obj.<name>`` of an object value (None if ``obj`` is not one or has no such method)."""
        tag = obj.get("__class__")
        if not (isinstance(tag, Opaque) and isinstance(tag.key, tuple) and len(tag.key) == 2 and tag.key[0] == "ref" and tag.key[1] in self.tree.classes):
            return None
        m = self.tree.lookup_method(self.tree.classes[tag.key[1]], name)
        if m is None:
            return None
        static = any(unparse(d) == "staticmethod" for d in m.node.decorator_list)
        return Bound(m.qual, None if static else obj)

    def construct(self, cls_qual: str, args: list, kwargs: dict) -> RF:
        cls = self.classes[cls_qual]
        fields = cls.fields
        if len(args) > len(fields):
            raise ExtractionError(f"{cls.name}: {len(args)} positional arguments for {len(fields)} fields")
        values: dict[str, Any] = {}
        for f, a in zip(fields, args):
            values[f.name] = a
        for k, v in kwargs.items():
            if k in {"evaluate"}:
                continue
            if k not in {f.name for f in fields}:
                raise ExtractionError(f"{cls.name}: unknown field {k}")
            if k in values:
                raise ExtractionError(f"{cls.name}: field {k} given twice")
            values[k] = v
        ordered = []
        extra = {}
        for f in fields:
            if f.name in values:
                v = values[f.name]
            elif f.default is not None:
                v = Opaque(("default", unparse(f.default)))
                if isinstance(f.default, ast.Constant) and isinstance(f.default.value, (int, float)) and not isinstance(f.default.value, bool):
                    v = RF.const(Fraction(str(f.default.value)))
                elif isinstance(f.default, (ast.Name, ast.Attribute)):
                    tgt = self.tree.resolve(cls.info.module, f.default)
                    if tgt:
                        v = Opaque(("ref", tgt))
            else:
                raise ExtractionError(f"{cls.name}: missing field {f.name}")
            if f.sympify:
                ordered.append(v)
            else:
                # `name` is presentation only
                if f.name != "name":
                    extra[f.name] = v
        return self.app(cls_qual, ordered, extra)

    def _sympy_call(self, name: str, node: ast.Call, env, fn, depth):
        if any(isinstance(a, ast.Starred) for a in node.args) and name not in {"Mul", "Add"}:
            node, env = self._expand_starred(node, env, fn, depth)  # `sp.Piecewise(*branches)`
        if name == "sqrt":
            return sqrt(self._rf(self.ev(node.args[0], env, fn, depth), node.args[0]))
        if name in {"Symbol", "Dummy", "IndexedBase", "MatrixSymbol", "Wild"}:
            nm = self.ev(node.args[0], env, fn, depth) if node.args else Opaque(f"_dummy{id(node)}")
            if not (isinstance(nm, Opaque) and isinstance(nm.key, str)):
                raise ExtractionError(f"symbol name not constant: `{unparse(node)}`")
            assumptions = {k.arg: unparse(k.value) for k in node.keywords if k.arg and k.arg != "shape"}
            for k in node.keywords:
                if k.arg is None:
                    # `sp.Symbol(name, **assumptions)`: the entries of the dict value, read like explicit keywords
                    mapping = self.ev(k.value, env, fn, depth)
                    if not (isinstance(mapping, DictV) and all(isinstance(kk, Opaque) and isinstance(kk.key, str) for kk, _ in mapping.items)):
                        raise ExtractionError(f"`{unparse(node)[:60]}`: **assumptions that are not a dict display with constant keys")
                    for kk, vv in mapping.items:
                        assumptions[kk.key] = str(vv.key) if isinstance(vv, Opaque) and isinstance(vv.key, bool) else repr(vv)
            self.symbol_assumptions[nm.key] = assumptions
            # every construction of that name, in order (two sites that disagree are both kept)
            self.symbol_constructions.setdefault(nm.key, []).append((name, dict(assumptions)))
            return RF.atom(nm.key)
        if name == "symbols":
            nm = self.ev(node.args[0], env, fn, depth)
            if isinstance(nm, Tup) and all(isinstance(x, Opaque) and isinstance(x.key, str) for x in nm.items):
                nm = Opaque(",".join(x.key for x in nm.items) + ",")  # a sequence of names: always a tuple of symbols
            if not (isinstance(nm, Opaque) and isinstance(nm.key, str)):
                raise ExtractionError("symbols() with non-constant names")
            names = expand_symbols(nm.key)
            for n in names:
                self.symbol_assumptions[n] = {k.arg: unparse(k.value) for k in node.keywords if k.arg}
            return Tup([RF.atom(n) for n in names]) if len(names) > 1 or "," in nm.key or " " in nm.key.strip() else RF.atom(names[0])
        if name == "Rational":
            args = [self.ev(a, env, fn, depth) for a in node.args]
            if len(args) == 1:
                return args[0]
            return self._rf(args[0]) / self._rf(args[1])
        if name in {"Integer", "Float", "sympify", "S", "nsimplify", "_sympify", "UnevaluatedExpr"}:
            return self.ev(node.args[0], env, fn, depth)
        if name in {"expand", "simplify", "factor", "together", "cancel", "radsimp", "expand_mul", "collect", "powsimp", "ratsimp"} and node.args:
            return self.ev(node.args[0], env, fn, depth)  # rewriting functions: the same value
        if name in {"Not", "And", "Or"} and node.args and not node.keywords:
            vals = [self.ev(a, env, fn, depth) for a in node.args]
            if all(isinstance(v, (Rel, Logic)) or (isinstance(v, Opaque) and isinstance(v.key, bool)) for v in vals) and (name != "Not" or len(vals) == 1):
                return Logic(name.lower(), vals)
            raise ExtractionError(f"sympy.{name} over values that are not relations")
        if name in {"Mul", "Add"}:
            vals = [self._rf(self.ev(a, env, fn, depth), a) for a in node.args if not isinstance(a, ast.Starred)]
            for a in node.args:
                if isinstance(a, ast.Starred):
                    v = self.ev(a.value, env, fn, depth)
                    if not isinstance(v, Tup):
                        raise ExtractionError("starred non-tuple in Add/Mul")
                    vals.extend(self._rf(x) for x in v.items)
            out = RF.const(1 if name == "Mul" else 0)
            for v in vals:
                out = out * v if name == "Mul" else out + v
            return out
        if name == "Pow":
            b, e = (self._rf(self.ev(a, env, fn, depth), a) for a in node.args[:2])
            return b**e
        if name == "Piecewise":
            branches = []
            for a in node.args:
                t = self.ev(a, env, fn, depth)
                if not (isinstance(t, Tup) and len(t.items) == 2):
                    raise ExtractionError("Piecewise branch is not a pair")
                branches.append((t.items[0], t.items[1]))
            return PW(branches)
        if name in {"Matrix", "ImmutableMatrix", "MutableDenseMatrix"}:
            v = self.ev(node.args[0], env, fn, depth)
            if len(node.args) == 1 and isinstance(v, Mat):
                return Mat([list(r) for r in v.rows])  # a copy
            if len(node.args) == 1 and isinstance(v, Tup) and v.items and all(isinstance(r, Tup) for r in v.items):
                if len({len(r.items) for r in v.items}) != 1:
                    raise RaisedError("Matrix literal with rows of different length raises ValueError")
                return Mat([[self._rf(e) for e in r.items] for r in v.items])
            if len(node.args) == 1 and isinstance(v, Tup) and v.items and not any(isinstance(r, (Tup, Mat)) for r in v.items):
                return Mat([[self._rf(e)] for e in v.items])  # a flat list is a column vector
            if len(node.args) == 3:
                # Matrix(rows, cols, f) / Matrix(rows, cols, flat list)
                n_rows, n_cols = self._dim(v), self._dim(self.ev(node.args[1], env, fn, depth))
                third = self.ev(node.args[2], env, fn, depth)
                if isinstance(third, Tup):
                    if len(third.items) != n_rows * n_cols:
                        raise RaisedError("Matrix(rows, cols, list) with a list of the wrong length raises ValueError")
                    return Mat([[self._rf(third.items[i * n_cols + j]) for j in range(n_cols)] for i in range(n_rows)])
                return Mat([[self._rf(self.apply(third, [RF.const(i), RF.const(j)], {}, env, fn, depth)) for j in range(n_cols)] for i in range(n_rows)])
            raise ExtractionError("Matrix literal shape")
        if name in {"hstack", "vstack"} and node.args and not node.keywords:
            blocks = []
            for a in node.args:
                blocks.extend(self._sequence(self.ev(a.value, env, fn, depth), f"sp.Matrix.{name}(*blocks)") if isinstance(a, ast.Starred) else [self.ev(a, env, fn, depth)])
            if not all(isinstance(b, Mat) for b in blocks):
                raise ExtractionError(f"Matrix.{name} over values that are not matrices")
            if name == "hstack":
                if len({b.shape[0] for b in blocks}) != 1:
                    raise RaisedError("Matrix.hstack of blocks with different numbers of rows raises ShapeError")
                return Mat([[e for b in blocks for e in b.rows[i]] for i in range(blocks[0].shape[0])])
            if len({b.shape[1] for b in blocks}) != 1:
                raise RaisedError("Matrix.vstack of blocks with different numbers of columns raises ShapeError")
            return Mat([list(r) for b in blocks for r in b.rows])
        if name in {"eye", "zeros", "ones"} and 1 <= len(node.args) <= 2 and not node.keywords:
            # sp.eye(4) / sp.zeros(4) / sp.ones(2, 3): fresh mutable matrices, usually completed by item assignment
            dims = [self._dim(self.ev(a, env, fn, depth)) for a in node.args]
            n_rows, n_cols = dims[0], dims[-1]
            fill = {"eye": lambda i, j: int(i == j), "zeros": lambda i, j: 0, "ones": lambda i, j: 1}[name]
            return Mat([[RF.const(fill(i, j)) for j in range(n_cols)] for i in range(n_rows)])
        if name == "diag" and node.args and not node.keywords:
            # sp.diag(1, -1, -1, -1): scalars (and matrix blocks) along the diagonal, zeros elsewhere
            blocks = []
            for a in node.args:
                if isinstance(a, ast.Starred):
                    blocks.extend(self._sequence(self.ev(a.value, env, fn, depth), "sp.diag(*entries)"))
                else:
                    blocks.append(self.ev(a, env, fn, depth))
            if any(isinstance(b, (Tup, DictV)) for b in blocks):
                raise ExtractionError("sp.diag over list / dict arguments")
            blocks = [b if isinstance(b, Mat) else Mat([[self._rf(b)]]) for b in blocks]
            n_rows, n_cols = sum(b.shape[0] for b in blocks), sum(b.shape[1] for b in blocks)
            out = [[RF.const(0) for _ in range(n_cols)] for _ in range(n_rows)]
            r0 = c0 = 0
            for b in blocks:
                for i, r in enumerate(b.rows):
                    for j, e in enumerate(r):
                        out[r0 + i][c0 + j] = e
                r0, c0 = r0 + b.shape[0], c0 + b.shape[1]
            return Mat(out)
        if name in {"Tuple"}:
            return Tup([self.ev(a, env, fn, depth) for a in node.args])
        if name in RELATIONALS:
            lhs, rhs = (self.ev(a, env, fn, depth) for a in node.args[:2])
            return Rel(RELATIONALS[name], lhs, rhs)
        if name in {"Sum", "Integral", "Product"}:
            args = [self.ev(a, env, fn, depth) for a in node.args]
            return self.app(name, args)
        if name in EXTERNAL_SIGNATURES:
            sig = EXTERNAL_SIGNATURES[name]
            args, kwargs = self._args(node, env, fn, depth)
            if len(args) > len(sig):
                raise ExtractionError(f"{name}: too many positional arguments")
            named = dict(zip(sig, args))
            for k, v in kwargs.items():
                if k in named:
                    raise ExtractionError(f"{name}: argument {k} given twice")
                named[k] = v
            return self.app(name, [], named)
        if name in OPAQUE_FUNCS:
            args = [self.ev(a, env, fn, depth) for a in node.args]
            if name == "conjugate" and isinstance(args[0], RF) and "I" not in _all_atoms(args[0]) and False:
                return args[0]
            return self.app(name, args)
        raise ExtractionError(f"sympy.{name} outside grammar")

    # ------------------------------------------------- constant propagation
    class NotConst(Exception):
        pass

    def _to_py(self, v):
        if isinstance(v, RF) and v.is_const():
            c = v.const_value()
            if c.denominator == 1:
                return int(c)
        if isinstance(v, Opaque) and isinstance(v.key, (str, bool)) or (isinstance(v, Opaque) and v.key is None):
            return v.key
        if isinstance(v, Tup):
            return tuple(self._to_py(i) for i in v.items)
        if isinstance(v, (int, str, bool, tuple, frozenset)):
            return v
        raise TermEval.NotConst

    def const(self, node: ast.AST, env: dict, fn: FuncInfo | None, depth: int = 0):
        """Evaluate a Python-level expression over constants (ints, strings, tuples, sets).
        Raises NotConst if it involves anything symbolic."""
        NC = TermEval.NotConst
        if isinstance(node, ast.Constant):
            if isinstance(node.value, (int, str, bool)) or node.value is None:
                return node.value
            raise NC
        if isinstance(node, ast.Name):
            if node.id in env:
                return self._to_py(env[node.id])
            if fn is not None:
                target = self.tree.resolve(fn.module, node, fn)
                table = self._module_table(target) if target else None
                if table is not None:
                    return table
            raise NC
        if isinstance(node, ast.Attribute) and isinstance(node.value, ast.Name) and isinstance(env.get(node.value.id), dict):
            struct = env[node.value.id]
            if node.attr in struct:
                return self._to_py(struct[node.attr])
            raise NC
        if isinstance(node, (ast.Tuple, ast.List)):
            out = []
            for e in node.elts:
                if isinstance(e, ast.Starred):
                    out.extend(self.const(e.value, env, fn, depth))
                else:
                    out.append(self.const(e, env, fn, depth))
            return tuple(out)
        if isinstance(node, ast.UnaryOp) and isinstance(node.op, ast.USub):
            v = self.const(node.operand, env, fn, depth)
            if isinstance(v, int) and not isinstance(v, bool):
                return -v
            raise NC
        if isinstance(node, ast.IfExp):
            return self.const(node.body if self.const(node.test, env, fn, depth) else node.orelse, env, fn, depth)
        if isinstance(node, ast.Subscript) and not isinstance(node.slice, ast.Slice):
            base, idx = self.const(node.value, env, fn, depth), self.const(node.slice, env, fn, depth)
            if isinstance(base, (tuple, str)) and isinstance(idx, int) and not isinstance(idx, bool) and -len(base) <= idx < len(base):
                return base[idx]
            raise NC
        if isinstance(node, (ast.GeneratorExp, ast.ListComp, ast.SetComp)):
            # a comprehension over constant collections with constant filters: the tuple (set) of its elements
            found: list = []

            def bind(target, item, env_):
                if isinstance(target, ast.Name):
                    env_[target.id] = self._from_py(item)
                elif isinstance(target, (ast.Tuple, ast.List)) and isinstance(item, tuple) and len(item) == len(target.elts):
                    for t, x in zip(target.elts, item):
                        bind(t, x, env_)
                else:
                    raise NC

            def rec(gens, env_):
                if not gens:
                    found.append(self.const(node.elt, env_, fn, depth))
                    return
                g = gens[0]
                coll = self.const(g.iter, env_, fn, depth)
                if not isinstance(coll, (tuple, frozenset, str)) or g.is_async:
                    raise NC
                if isinstance(coll, frozenset) and len(coll) > 1 and not isinstance(node, ast.SetComp):
                    if not all(isinstance(x, int) and 0 <= x < 8 for x in coll):
                        raise NC  # iteration order of a set: only small ints iterate in a determined (ascending) order
                    coll = tuple(sorted(coll))
                for item in coll:
                    env2 = dict(env_)
                    bind(g.target, item, env2)
                    if all(self.const(c, env2, fn, depth) for c in g.ifs):
                        rec(gens[1:], env2)

            rec(list(node.generators), env)
            return frozenset(found) if isinstance(node, ast.SetComp) else tuple(found)
        if isinstance(node, ast.Set):
            return frozenset(self.const(e, env, fn, depth) for e in node.elts)
        if isinstance(node, ast.UnaryOp) and isinstance(node.op, ast.Not):
            return not self.const(node.operand, env, fn, depth)
        if isinstance(node, ast.BoolOp):
            vals = [self.const(v, env, fn, depth) for v in node.values]
            return all(vals) if isinstance(node.op, ast.And) else any(vals)
        if isinstance(node, ast.BinOp):
            a, b = self.const(node.left, env, fn, depth), self.const(node.right, env, fn, depth)
            if isinstance(a, frozenset) and isinstance(b, frozenset):
                if isinstance(node.op, ast.Sub):
                    return a - b
                if isinstance(node.op, ast.BitOr):
                    return a | b
                if isinstance(node.op, ast.BitAnd):
                    return a & b
            if isinstance(a, int) and isinstance(b, int) and isinstance(node.op, (ast.Add, ast.Sub, ast.Mult)):
                return {ast.Add: a + b, ast.Sub: a - b, ast.Mult: a * b}[type(node.op)]
            if isinstance(a, int) and isinstance(b, int) and b != 0 and isinstance(node.op, (ast.Mod, ast.FloorDiv)):
                return a % b if isinstance(node.op, ast.Mod) else a // b
            if isinstance(a, str) and isinstance(b, str) and isinstance(node.op, ast.Add):
                return a + b
            if isinstance(a, tuple) and isinstance(b, tuple) and isinstance(node.op, ast.Add):
                return a + b
            if isinstance(a, str) and isinstance(node.op, ast.Mod) and isinstance(b, (int, str, tuple)):
                try:
                    return a % b
                except (TypeError, ValueError):
                    raise NC from None
            raise NC
        if isinstance(node, ast.Compare) and len(node.ops) == 1 and isinstance(node.ops[0], (ast.Is, ast.IsNot)) and isinstance(node.comparators[0], ast.Constant) and node.comparators[0].value is None and isinstance(node.left, ast.Name) and node.left.id in env:
            # `x is None` for a name bound to a term value (a symbol, an expression): decided - it is not None
            v = env[node.left.id]
            if isinstance(v, (RF, Tup, Mat, PW, Rel, DictV)) or (isinstance(v, Opaque) and v.key is not None and v.key != ("const", None)):
                return isinstance(node.ops[0], ast.IsNot)
        if isinstance(node, ast.Compare) and len(node.ops) == 1:
            a, b = self.const(node.left, env, fn, depth), self.const(node.comparators[0], env, fn, depth)
            op = node.ops[0]
            if isinstance(op, ast.Eq):
                return a == b
            if isinstance(op, ast.NotEq):
                return a != b
            if isinstance(op, (ast.In, ast.NotIn)):
                try:
                    r = a in b
                except TypeError:
                    r = False
                return r if isinstance(op, ast.In) else not r
            if isinstance(op, ast.LtE):
                return a <= b
            if isinstance(op, ast.Lt):
                return a < b
            if isinstance(op, ast.GtE):
                return a >= b
            if isinstance(op, ast.Gt):
                return a > b
            if isinstance(op, ast.Is):
                return a is b
            if isinstance(op, ast.IsNot):
                return a is not b
            raise NC
        if isinstance(node, ast.JoinedStr):
            out = []
            for v in node.values:
                if isinstance(v, ast.Constant):
                    out.append(str(v.value))
                else:
                    out.append(str(self.const(v.value, env, fn, depth)))
            return "".join(out)
        if isinstance(node, ast.Call):
            f = node.func
            if isinstance(f, ast.Name) and f.id == "sorted" and len(node.args) == 1 and len(node.keywords) == 1 and node.keywords[0].arg == "reverse" and isinstance(node.keywords[0].value, ast.Constant):
                return tuple(sorted(self.const(node.args[0], env, fn, depth), reverse=bool(node.keywords[0].value.value)))
            if isinstance(f, ast.Name) and f.id in {"map", "filter"} and f.id not in env and len(node.args) == 2 and not node.keywords and isinstance(node.args[0], ast.Lambda):
                lam = node.args[0]
                if len(lam.args.args) != 1 or lam.args.vararg or lam.args.kwarg or lam.args.kwonlyargs or lam.args.defaults:
                    raise NC
                coll = self.const(node.args[1], env, fn, depth)
                if not isinstance(coll, (tuple, str)):
                    raise NC
                images = [self.const(lam.body, {**env, lam.args.args[0].arg: self._from_py(x)}, fn, depth) for x in coll]
                return tuple(images) if f.id == "map" else tuple(x for x, keep in zip(coll, images) if keep)
            if isinstance(f, ast.Name) and f.id in {"sorted", "tuple", "list", "set", "frozenset", "str", "int", "len", "next", "iter", "map"} and not node.keywords:
                args = [self.const(a, env, fn, depth) if not (f.id == "map" and i == 0) else a for i, a in enumerate(node.args)]
                if f.id == "sorted":
                    return tuple(sorted(args[0]))
                if f.id in {"tuple", "list"}:
                    return tuple(args[0])
                if f.id in {"set", "frozenset"}:
                    return frozenset(args[0])
                if f.id == "str":
                    return str(args[0])
                if f.id == "int":
                    return int(args[0])
                if f.id == "len":
                    return len(args[0])
                if f.id == "iter":
                    return tuple(sorted(args[0])) if isinstance(args[0], frozenset) else tuple(args[0])
                if f.id == "next":
                    seq = args[0]
                    if isinstance(seq, frozenset):
                        seq = tuple(sorted(seq))
                    if isinstance(args[0], tuple) and seq:
                        return seq[0]  # an ordered collection: its first element
                    if len(seq) != 1:
                        raise ExtractionError("next(iter(...)) of a constant collection that is not a singleton: the picked element is not determined")
                    return seq[0]
                if f.id == "map" and isinstance(node.args[0], ast.Name) and node.args[0].id == "str":
                    return tuple(str(x) for x in args[1])
                raise NC
            if isinstance(f, ast.Attribute) and f.attr == "pop" and not node.args and not node.keywords and not isinstance(f.value, ast.Name):
                coll = self.const(f.value, env, fn, depth)  # `(S - {i, j}).pop()` on a temporary one-element set
                if isinstance(coll, frozenset) and len(coll) == 1:
                    return next(iter(coll))
                raise NC
            if isinstance(f, ast.Attribute) and f.attr == "join" and len(node.args) == 1:
                sep = self.const(f.value, env, fn, depth)
                parts = self.const(node.args[0], env, fn, depth)
                if not isinstance(sep, str) or not isinstance(parts, tuple) or not all(isinstance(x, str) for x in parts):
                    raise NC
                return sep.join(parts)
            if isinstance(f, ast.Attribute) and f.attr == "format" and isinstance(f.value, (ast.Constant, ast.JoinedStr, ast.Name)):
                template = self.const(f.value, env, fn, depth)
                if not isinstance(template, str) or any(k.arg is None for k in node.keywords) or any(isinstance(a, ast.Starred) for a in node.args):
                    raise NC
                try:
                    return template.format(*[self.const(a, env, fn, depth) for a in node.args], **{k.arg: self.const(k.value, env, fn, depth) for k in node.keywords})
                except (IndexError, KeyError, ValueError):
                    raise NC from None
            if isinstance(f, ast.Name) and f.id not in env and f.id in {"range", "min", "max", "sum", "reversed", "enumerate", "zip", "any", "all", "abs"} and not node.keywords:
                cargs = [self.const(a, env, fn, depth) for a in node.args]
                if f.id == "range" and 1 <= len(cargs) <= 3 and all(isinstance(x, int) and not isinstance(x, bool) for x in cargs) and (len(cargs) < 3 or cargs[2] != 0):
                    return tuple(range(*cargs))
                if f.id in {"reversed", "enumerate"} and len(cargs) == 1 and isinstance(cargs[0], (tuple, str)):
                    return tuple(reversed(cargs[0])) if f.id == "reversed" else tuple(enumerate(cargs[0]))
                if f.id == "zip" and cargs and all(isinstance(x, (tuple, str)) for x in cargs):
                    return tuple(zip(*cargs))
                if f.id in {"min", "max", "sum", "any", "all"} and len(cargs) == 1 and isinstance(cargs[0], (tuple, frozenset)) and all(isinstance(x, int) for x in cargs[0]) and (cargs[0] or f.id in {"sum", "any", "all"}):
                    return {"min": min, "max": max, "sum": sum, "any": any, "all": all}[f.id](cargs[0])
                if f.id in {"min", "max"} and len(cargs) >= 2 and all(isinstance(x, int) for x in cargs):
                    return {"min": min, "max": max}[f.id](cargs)
                if f.id == "abs" and len(cargs) == 1 and isinstance(cargs[0], int):
                    return abs(cargs[0])
                raise NC
            if fn is not None and depth < 4:
                callee = self.tree.resolve(fn.module, f, fn)
                if callee in self.tree.funcs:
                    g = self.tree.funcs[callee]
                    if all(isinstance(st, (ast.Assign, ast.Return, ast.Expr)) for st in g.node.body):
                        if any(isinstance(a, ast.Starred) for a in node.args) or any(k.arg is None for k in node.keywords):
                            raise NC
                        cargs = [self.const(a, env, fn, depth) for a in node.args]
                        named = dict(zip(g.params, cargs))
                        for k in node.keywords:
                            if k.arg in named or k.arg not in g.params:
                                raise NC
                            named[k.arg] = self.const(k.value, env, fn, depth)
                        cenv = {p: (RF.const(v) if isinstance(v, int) and not isinstance(v, bool) else Opaque(v) if isinstance(v, (str, bool)) or v is None else self._from_py(v) if isinstance(v, tuple) else v) for p, v in named.items()}
                        for st in g.node.body:
                            if isinstance(st, ast.Expr):
                                continue
                            if isinstance(st, ast.Assign) and isinstance(st.targets[0], ast.Name):
                                cenv[st.targets[0].id] = self.const(st.value, cenv, g, depth + 1)
                            elif isinstance(st, ast.Return):
                                return self.const(st.value, cenv, g, depth + 1)
            raise NC
        raise NC

    def _from_py(self, v):
        if isinstance(v, bool) or v is None or isinstance(v, str):
            return Opaque(v)
        if isinstance(v, int):
            return RF.const(v)
        if isinstance(v, tuple):
            return Tup([self._from_py(x) for x in v])
        if isinstance(v, frozenset):
            return v
        raise ExtractionError(f"constant of type {type(v).__name__}")

    # -------------------------------------------------------------- functions
    def bind_params(self, fn: FuncInfo, args: list, kwargs: dict, skip_first: bool = False) -> dict:
        a = fn.node.args
        pos = [*a.posonlyargs, *a.args]
        if skip_first and pos:
            pos = pos[1:]
        env: dict[str, Any] = {}
        if len(args) > len(pos) and a.vararg is None:
            raise ExtractionError(f"{fn.qual}: too many positional arguments")
        for p, v in zip(pos, args):
            env[p.arg] = v
        if a.vararg is not None:
            # `def f(*pairs)`: the surplus positional arguments, as the tuple the callee sees
            env[a.vararg.arg] = Tup(list(args[len(pos):]))
        named = {p.arg for p in [*pos, *a.kwonlyargs]}
        extra = []
        for k, v in kwargs.items():
            if a.kwarg is not None and k not in named:
                extra.append((Opaque(k), v))  # `def f(**options)`: the surplus keywords, as the dict the callee sees
                continue
            env[k] = v
        if a.kwarg is not None:
            env[a.kwarg.arg] = DictV(extra)
        defaults = dict(zip([p.arg for p in pos][len(pos) - len(a.defaults):], a.defaults))
        for p in a.kwonlyargs:
            pass
        for p, dflt in zip(a.kwonlyargs, a.kw_defaults):
            if dflt is not None:
                defaults[p.arg] = dflt
        for p in [*pos, *a.kwonlyargs]:
            if p.arg not in env:
                if p.arg in defaults:
                    try:
                        env[p.arg] = self.ev(defaults[p.arg], {}, fn, 0)
                    except ExtractionError:
                        env[p.arg] = Opaque(("default", unparse(defaults[p.arg])))
                else:
                    raise ExtractionError(f"{fn.qual}: missing argument {p.arg}")
        return env

    def eval_function(self, fn: FuncInfo, args: list, kwargs: dict | None = None, depth: int = 0, env: dict | None = None):
        env = dict(env) if env is not None else self.bind_params(fn, args, kwargs or {})
        return self.eval_body(fn.node.body, env, fn, depth)

    def eval_body(self, body: list[ast.stmt], env: dict, fn: FuncInfo, depth: int = 0):
        for idx, st in enumerate(body):
            if isinstance(st, ast.Expr) and isinstance(st.value, ast.Constant):
                continue  # docstring
            if isinstance(st, ast.Expr) and isinstance(st.value, ast.Call) and isinstance(st.value.func, ast.Attribute):
                call = st.value
                recv = call.func.value
                if call.func.attr == "update" and isinstance(recv, ast.Name) and isinstance(env.get(recv.id), DictV) and len(call.args) == 1 and self.fork:
                    other = self.ev(call.args[0], env, fn, depth)
                    if not isinstance(other, DictV):
                        raise ExtractionError("dict.update with a non-literal mapping")
                    merged = list(env[recv.id].items)
                    for k, v in other.items:
                        merged = [(a, b) for a, b in merged if vkey(a) != vkey(k)] + [(k, v)]
                    env[recv.id] = DictV(merged)
                    continue
                if call.func.attr == "update" and not self.fork and (_attr_chain(recv) or "").split(".")[0] in env and len(call.args) <= 1:
                    # `d.update(other)` / `self.registry.update({k: v})` on a dict value: in place, like `d[k] = v`
                    holder = self.ev(recv, env, fn, depth)
                    if isinstance(holder, DictV):
                        _, kwargs = self._args(ast.Call(func=call.func, args=[], keywords=call.keywords), env, fn, depth)
                        other = self.ev(call.args[0], env, fn, depth) if call.args else DictV([])
                        if not isinstance(other, DictV):
                            other = self._stdlib("builtins.dict", [other], {}, env, fn, depth, call)
                        for k, v in [*other.items, *[(Opaque(k), v) for k, v in kwargs.items()]]:
                            holder.items[:] = [(a, b) for a, b in holder.items if vkey(a) != vkey(k)] + [(k, v)]
                        continue
                if call.func.attr in {"append", "extend"} and isinstance(recv, ast.Name) and isinstance(env.get(recv.id), Tup) and len(call.args) == 1 and not call.keywords:
                    # `acc.append(x)` / `acc.extend(xs)` on a list value: in place (the Tup object is shared by every alias)
                    holder = env[recv.id]
                    added = self.ev(call.args[0], env, fn, depth)
                    holder.items = [*holder.items, *([added] if call.func.attr == "append" else self._sequence(added, f"{fn.qual}: `{unparse(call)[:50]}`"))]
                    continue
                base = recv
                while isinstance(base, (ast.Attribute, ast.Subscript, ast.Call)):
                    base = base.value if not isinstance(base, ast.Call) else base.func
                if isinstance(base, ast.Name) and base.id in {"_LOGGER", "logging", "warnings", "printer"}:
                    continue  # logging / printer bookkeeping does not contribute to the term
            if isinstance(st, ast.Expr) and isinstance(st.value, ast.Call):
                # `_require_x(pool)`: a helper whose value is discarded and whose body only validates (tests,
                # raises, string locals - no stores, no calls as statements) contributes nothing to the term;
                # it is evaluated so that a guard that fires for these constants still raises here
                callee = self.tree.resolve(fn.module, st.value.func, fn)
                target = self.tree.funcs.get(callee) if callee else None
                if target is not None and _only_validates(target.node.body):
                    try:
                        self.ev(st.value, env, fn, depth)
                    except (NoReturn, BareReturn):
                        pass  # the helper ended without raising
                    continue
            if isinstance(st, (ast.Import, ast.ImportFrom, ast.Pass)):
                continue
            if isinstance(st, (ast.FunctionDef,)):
                # a nested `def` is a callable value like a lambda (it may be handed to a helper as `key=` / `sqrt_function=`)
                env[st.name] = Lam(st, env, fn)
                env[("localfunc", st.name)] = st
                continue
            if isinstance(st, ast.Return):
                if st.value is None:
                    raise BareReturn("bare return")
                return self.ev(st.value, env, fn, depth)
            if isinstance(st, ast.Raise):
                raise RaisedError(f"{fn.qual}: raises `{unparse(st.exc)[:60] if st.exc is not None else ''}`")
            if isinstance(st, ast.AnnAssign):
                if st.value is None:
                    continue
                self._assign(st.target, self.ev(st.value, env, fn, depth), env, fn, depth)
                continue
            if isinstance(st, ast.Assign):
                try:
                    val = self.ev(st.value, env, fn, depth)
                except ExtractionError as exc:
                    if isinstance(exc, RaisedError):
                        raise
                    try:
                        val = self._from_py(self.const(st.value, env, fn))
                    except TermEval.NotConst:
                        raise exc from None
                if self.fork and isinstance(val, PW) and any(isinstance(t, (ast.Tuple, ast.List)) for t in st.targets):
                    # a forked callee returned one tuple per path and the caller unpacks it (a SymPy Piecewise
                    # cannot be unpacked): the rest of this body is evaluated once per path of the callee
                    rest = body[idx + 1:]
                    branches = []
                    for bval, bcond in val.branches:
                        benv = dict(env)
                        for t in st.targets:
                            self._assign(t, bval, benv, fn, depth)
                        try:
                            res = self.eval_body(rest, benv, fn, depth)
                        except RaisedError:
                            continue
                        if isinstance(res, PW):
                            branches += [(v, Tup([bcond, c2])) for v, c2 in res.branches]
                        else:
                            branches.append((res, bcond))
                    if not branches:
                        raise NoReturn(f"{fn.qual}: every path raises")
                    return branches[0][0] if len(branches) == 1 else PW(branches)
                for t in st.targets:
                    self._assign(t, val, env, fn, depth)
                continue
            if isinstance(st, ast.AugAssign) and isinstance(st.target, ast.Name) and (isinstance(env.get(st.target.id), (RF, Mat, int, Fraction)) or _is_text(env.get(st.target.id))):
                # `x op= e` on a scalar / matrix term rebinds x to `x op e` (term values are immutable, so there
                # is no aliasing to respect; lists, dicts and strings stay outside the grammar)
                binop = ast.copy_location(ast.BinOp(left=ast.Name(id=st.target.id, ctx=ast.Load()), op=st.op, right=st.value), st)
                env[st.target.id] = self.ev(binop, env, fn, depth)
                continue
            if isinstance(st, ast.AugAssign) and isinstance(st.target, ast.Subscript) and not isinstance(st.target.slice, ast.Slice):
                # `m[i, j] op= e` on a matrix / dict value: the item assignment of `m[i, j] op e`
                load = ast.copy_location(ast.Subscript(value=st.target.value, slice=st.target.slice, ctx=ast.Load()), st.target)
                binop = ast.copy_location(ast.BinOp(left=load, op=st.op, right=st.value), st)
                self._assign(st.target, self.ev(binop, env, fn, depth), env, fn, depth)
                continue
            if isinstance(st, ast.Try) and not st.finalbody:
                # on the path where nothing is raised a `try` is its body; where the body raises for these constants
                # the statement raises too if every handler only re-raises (`except KeyError: raise ValueError(...)`)
                try:
                    return self.eval_body([*st.body, *st.orelse, *body[idx + 1:]], env, fn, depth)
                except RaisedError:
                    if all(h.body and all(isinstance(s_, ast.Raise) or (isinstance(s_, ast.Assign) and _only_strings(s_)) for s_ in h.body) for h in st.handlers):
                        raise
                    raise ExtractionError(f"{fn.qual}: the body of a `try` raises for these constants and a handler may take over: outside the straight-line grammar") from None
            if isinstance(st, ast.Assert):
                try:
                    holds = self.const(st.test, env, fn)
                except TermEval.NotConst:
                    holds = True  # validation over symbolic values: contributes nothing to the term
                if not holds:
                    raise RaisedError(f"{fn.qual}: `assert {unparse(st.test)[:50]}` fails for these constants")
                continue
            if isinstance(st, ast.For):
                # a loop over a collection of known length and order IS its unrolled statement list: the element
                # values are held under names no program can spell and assigned to the loop target per round, and
                # the rest of the body follows - so returns inside the loop and path forking work as in straight-line code
                if any(isinstance(n, (ast.Break, ast.Continue)) for s_ in st.body for n in ast.walk(s_)):
                    raise ExtractionError(f"{fn.qual}: loop with break / continue is outside the straight-line grammar")
                try:
                    coll = self.ev(st.iter, env, fn, depth)
                except ExtractionError as exc:
                    if isinstance(exc, RaisedError):
                        raise
                    try:
                        coll = self._from_py(self.const(st.iter, env, fn))
                    except TermEval.NotConst:
                        raise exc from None
                items = self._sequence(coll, f"{fn.qual}: loop over `{unparse(st.iter)[:50]}`")
                unrolled: list[ast.stmt] = []
                for k, item in enumerate(items):
                    hidden = f"<for {getattr(st, 'lineno', 0)}:{getattr(st, 'col_offset', 0)} #{k}>"
                    env[hidden] = item
                    unrolled.append(ast.copy_location(ast.Assign(targets=[st.target], value=ast.Name(id=hidden, ctx=ast.Load())), st))
                    unrolled.extend(st.body)
                return self.eval_body([*unrolled, *st.orelse, *body[idx + 1:]], env, fn, depth)
            if isinstance(st, ast.If):
                # a test over constants (finite index domain) is decided by constant propagation
                try:
                    decided = self.const(st.test, env, fn)
                except TermEval.NotConst:
                    decided = None
                if isinstance(decided, bool):
                    block = st.body if decided else st.orelse
                    if any(isinstance(s_, ast.Raise) for s_ in block):
                        exc = next(s_ for s_ in block if isinstance(s_, ast.Raise))
                        raise RaisedError(f"{fn.qual}: raises `{unparse(exc.exc)[:60] if exc.exc is not None else ''}` for these constants")
                    if block:
                        try:
                            return self.eval_body(block, env, fn, depth)
                        except NoReturn:
                            pass
                    continue
                if self.fork and not all(isinstance(s_, ast.Raise) or (isinstance(s_, ast.Assign) and _only_strings(s_)) for s_ in st.body):
                    try:
                        cond = self.ev(st.test, env, fn, depth)
                    except RaisedError:
                        raise
                    except ExtractionError:
                        # the test is only the LABEL of the two paths (both are evaluated): a test outside the
                        # term grammar is an opaque label (locals numbered, so it is stable under renaming)
                        from .canon import canon

                        cond = Opaque(("test", canon(st.test, fn.node)))
                    rest = body[idx + 1 :]
                    branches = []
                    for block, c in ((st.body, cond), (st.orelse, Opaque(("else-of", vkey(cond))))):
                        try:
                            val = self.eval_body([*block, *rest], dict(env), fn, depth)
                        except RaisedError:
                            continue
                        if isinstance(val, PW):
                            branches += [(v, Tup([c, c2])) for v, c2 in val.branches]
                        else:
                            branches.append((val, c))
                    if not branches:
                        raise NoReturn(f"{fn.qual}: every path raises")
                    return branches[0][0] if len(branches) == 1 else PW(branches)
                # tolerated: guard clauses that only raise (argument validation)
                if all(isinstance(s, ast.Raise) or (isinstance(s, ast.Assign) and _only_strings(s)) for s in st.body) and not st.orelse:
                    self.skipped_guards.append(f"{fn.qual}: `if {unparse(st.test)[:60]}`")
                    continue
                raise ExtractionError(f"{fn.qual}: branching body (`if {unparse(st.test)[:50]}`) is outside the straight-line grammar")
            raise ExtractionError(f"{fn.qual}: statement {type(st).__name__} outside the straight-line grammar")
        raise NoReturn(f"{fn.qual}: no return reached")

    def _assign(self, target, val, env, fn=None, depth=0):
        if isinstance(target, ast.Name):
            env[target.id] = val
        elif isinstance(target, ast.Subscript) and not isinstance(target.slice, ast.Slice):
            # `d[k] = v` on a dict value: updated in place, so every alias (a field of `self` handed to a
            # helper method, a local name for it) sees the entry - like the Python object
            if self.fork:
                raise ExtractionError("item assignment under path forking (the paths would share the mapping)")
            base = self.ev(target.value, env, fn, depth)
            if isinstance(base, Mat) and isinstance(target.slice, ast.Tuple) and any(isinstance(e, ast.Slice) for e in target.slice.elts):
                # `m[1:, 1:] = block`: the entries of the block, in place
                rows, cols, _ = self._mat_ranges(base, target.slice, env, fn, target)
                block = val
                if isinstance(block, Tup) and all(isinstance(r, Tup) for r in block.items):
                    block = Mat([[self._rf(e) for e in r.items] for r in block.items])
                elif isinstance(block, Tup) and (len(rows) == 1 or len(cols) == 1):
                    flat = [self._rf(e) for e in block.items]
                    block = Mat([flat]) if len(rows) == 1 else Mat([[e] for e in flat])
                if not isinstance(block, Mat) or block.shape != (len(rows), len(cols)):
                    raise ExtractionError(f"`{unparse(target)[:40]} = ...`: the assigned value is not a {len(rows)}x{len(cols)} block")
                for bi, i in enumerate(rows):
                    for bj, j in enumerate(cols):
                        base.rows[i][j] = block.rows[bi][bj]
                return
            if isinstance(base, Mat):
                # `m[i, j] = v` on a matrix value (sp.eye(4) completed entry by entry): in place, like the object
                idx = self.ev(target.slice, env, fn, depth)
                if not (isinstance(idx, Tup) and len(idx.items) == 2 and all(isinstance(i, RF) and i.is_const() and i.const_value().denominator == 1 for i in idx.items)):
                    raise ExtractionError(f"matrix item assignment `{unparse(target)[:40]}`: index is not a pair of constants")
                i, j = (int(x.const_value()) for x in idx.items)
                n_rows, n_cols = base.shape
                if not (-n_rows <= i < n_rows and -n_cols <= j < n_cols):
                    raise RaisedError(f"`{unparse(target)[:40]}` raises IndexError")
                base.rows[i][j] = self._rf(val)
                return
            if not isinstance(base, DictV):
                raise ExtractionError(f"item assignment to `{unparse(target.value)[:40]}`: not a dict value")
            key = self.ev(target.slice, env, fn, depth)
            kk = vkey(key)
            base.items[:] = [(a, b) for a, b in base.items if vkey(a) != kk] + [(key, val)]
        elif isinstance(target, (ast.Tuple, ast.List)):
            if (isinstance(val, Opaque) and isinstance(val.key, tuple) and val.key and val.key[0] in {"ref", "attr"}
                    and not any(isinstance(t, ast.Starred) for t in target.elts)):
                # `a, b = x.pair` on an opaque object: a is what `x.pair[0]` denotes, b what `x.pair[1]` denotes
                # (the same atoms as _ev_Subscript makes; a length mismatch would raise in Python)
                val = Tup([RF.atom(("sym", ("attr", val.key, ("idx", (vkey(RF.const(i)),))))) for i in range(len(target.elts))])
            if isinstance(val, frozenset):
                # `(x,) = S` for a constant set: determined only if S has one element (or no order is needed)
                if len(val) != len(target.elts) and not any(isinstance(t, ast.Starred) for t in target.elts):
                    raise RaisedError(f"unpacking a set of {len(val)} elements into {len(target.elts)} targets raises ValueError")
                val = Tup(self._sequence(val, "unpacking a set"))
            if isinstance(val, DictV) or self.record_of(val) is not None:
                val = Tup(self._sequence(val, "unpacking"))
            if not isinstance(val, Tup):
                raise ExtractionError("unpacking a non-tuple")
            star = [i for i, t in enumerate(target.elts) if isinstance(t, ast.Starred)]
            if not star:
                if len(val.items) != len(target.elts):
                    raise ExtractionError(f"unpacking {len(val.items)} values into {len(target.elts)} targets")
                for t, v in zip(target.elts, val.items):
                    self._assign(t, v, env, fn, depth)
            else:
                s = star[0]
                n_after = len(target.elts) - s - 1
                for t, v in zip(target.elts[:s], val.items[:s]):
                    self._assign(t, v, env, fn, depth)
                self._assign(target.elts[s].value, Tup(val.items[s: len(val.items) - n_after]), env, fn, depth)
                for t, v in zip(target.elts[s + 1:], val.items[len(val.items) - n_after:]):
                    self._assign(t, v, env, fn, depth)
        elif isinstance(target, ast.Attribute):
            # `self.x = v` on an object value (see `new_object`): the attribute of that object, in place
            base = self.ev(target.value, env, fn, depth)
            if not (isinstance(base, dict) and "__class__" in base):
                raise ExtractionError(f"attribute assignment `{unparse(target)[:40]}`: not an object value")
            if self.fork:
                raise ExtractionError("attribute assignment under path forking (the paths would share the object)")
            base[target.attr] = val
        else:
            raise ExtractionError(f"assignment target {type(target).__name__}")

    # -------------------------------------------------------------- unfolding
    def self_env(self, cls_qual: str, info: AppInfo) -> dict:
        cls = self.classes[cls_qual]
        struct: dict[str, Any] = {}
        sym_fields = cls.sympy_fields
        for f, v in zip(sym_fields, info.args):
            struct[f.name] = v
        for f in cls.non_sympy_fields:
            if f.name in info.kwargs:
                struct[f.name] = info.kwargs[f.name]
            elif f.name == "name":
                struct[f.name] = Opaque(None)
        struct["args"] = Tup(list(info.args))
        struct["__class__"] = Opaque(("ref", cls_qual))
        return {"self": struct}

    def unfold_atom(self, atom, method: str = "evaluate", depth: int = 0):
        info = self.apps[atom]
        if info.cls not in self.classes:
            raise ExtractionError(f"cannot unfold {info.cls}")
        cls = self.classes[info.cls]
        m = self.tree.lookup_method(cls.info, method)  # own or inherited from a repo base class
        if m is None:
            raise ExtractionError(f"{cls.name} has no {method}()")
        env = self.self_env(info.cls, info)
        return self.eval_body(m.node.body, env, m, depth)

    def unfold(self, v: RF, classes: set[str] | None = None, max_rounds: int = 8) -> RF:
        """Replace App atoms of (the given) repo classes by their evaluate() terms."""
        for _ in range(max_rounds):
            todo = [a for a in v.atoms() if self.is_app(a) and a in self.apps and self.apps[a].cls in self.classes
                    and (classes is None or self.apps[a].cls.split("::")[-1] in classes)
                    and self.classes[self.apps[a].cls].method("evaluate") is not None]
            # atoms nested inside sqrt radicands
            if not todo:
                nested = self._unfold_radicands(v, classes)
                if nested is None:
                    return v
                v = nested
                continue
            for a in todo:
                val = self._rf(self.unfold_atom(a))
                v = v.substitute(a, val)
        return v

    def _unfold_radicands(self, v: RF, classes) -> RF | None:
        for a in v.atoms():
            if isinstance(a, tuple) and a and a[0] == "sqrt":
                rad = D.radicands[a]
                inner = [x for x in rad.atoms() if self.is_app(x) and x in self.apps and self.apps[x].cls in self.classes
                         and (classes is None or self.apps[x].cls.split("::")[-1] in classes)
                         and self.classes[self.apps[x].cls].method("evaluate") is not None]
                if inner:
                    new_rad = self.unfold(RF(rad), classes)
                    return v.substitute(a, sqrt(new_rad))
        return None


def _all_atoms(v: RF) -> set:
    return v.atoms()


_TEXT_METHODS = {
    "strip", "lstrip", "rstrip", "replace", "lower", "upper", "title", "capitalize", "zfill", "ljust", "rjust", "center", "removeprefix", "removesuffix",
    "split", "rsplit", "splitlines", "expandtabs", "startswith", "endswith", "count", "find", "rfind", "isdigit", "isalpha", "isidentifier", "partition", "rpartition",
}


def _is_text(v) -> bool:
    """A string constant (immutable: `s += t` rebinds, there is no aliasing to respect)."""
    return isinstance(v, Opaque) and isinstance(v.key, str) and not isinstance(v.key, bool)


def _is_stdlib(name: str) -> bool:
    """A standard-library callable that TermEval._stdlib folds."""
    mod, _, short = name.rpartition(".")
    if mod in {"operator", "_operator"}:
        return short in STDLIB_ARITH or short in STDLIB_REL or short in {"neg", "pos"}
    if mod == "builtins":
        return short in BUILTIN_FOLDS
    return name in STDLIB_FOLDS


def deep_atoms(te: "TermEval", v, _seen=None) -> set:
    """All atoms of a value, looking through App arguments, sqrt radicands and containers."""
    out: set = set()
    _seen = _seen if _seen is not None else set()

    def visit(x):
        if isinstance(x, RF):
            for a in x.atoms():
                if a in _seen:
                    continue
                _seen.add(a)
                out.add(a)
                if isinstance(a, tuple) and a:
                    if a[0] == "sqrt":
                        visit(RF(D.radicands[a]))
                    elif a[0] == "app" and a in te.apps:
                        for y in te.apps[a].args:
                            visit(y)
                        for y in te.apps[a].kwargs.values():
                            visit(y)
        elif isinstance(x, Tup):
            for y in x.items:
                visit(y)
        elif isinstance(x, Mat):
            for r in x.rows:
                for y in r:
                    visit(y)
        elif isinstance(x, PW):
            for val, cond in x.branches:
                visit(val)
                visit(cond)
        elif isinstance(x, Rel):
            visit(x.lhs)
            visit(x.rhs)
        elif isinstance(x, Logic):
            for y in x.args:
                visit(y)

    visit(v)
    return out


def _only_validates(body: list) -> bool:
    """A body made of tests, raises, value-less returns and assignments of strings to plain locals."""
    for st in body:
        if isinstance(st, ast.Expr) and isinstance(st.value, ast.Constant):
            continue
        if isinstance(st, (ast.Raise, ast.Pass)):
            continue
        if isinstance(st, ast.Return) and (st.value is None or (isinstance(st.value, ast.Constant) and st.value.value is None)):
            continue
        if isinstance(st, ast.Assign) and all(isinstance(t, ast.Name) for t in st.targets) and _only_strings(st):
            continue
        if isinstance(st, ast.If) and _only_validates(st.body) and _only_validates(st.orelse):
            continue
        return False
    return True


_TEXT_BUILTINS = {"str", "repr", "sorted", "list", "tuple", "set", "frozenset", "len", "map", "format", "min", "max", "type"}


def _only_strings(st: ast.Assign) -> bool:
    """The value is a message text: a literal / f-string, or an expression that only formats values - every call in it is a
    pure builtin (``sorted``, ``str``, ``map`` ...) or ``<text>.join / .format`` - so evaluating it has no effect."""
    if isinstance(st.value, (ast.Constant, ast.JoinedStr)):
        return True
    calls = [n for n in ast.walk(st.value) if isinstance(n, ast.Call)]
    if not calls or any(isinstance(n, (ast.NamedExpr, ast.Await, ast.Yield, ast.YieldFrom, ast.Lambda)) for n in ast.walk(st.value)):
        return False
    for c in calls:
        if isinstance(c.func, ast.Name) and c.func.id in _TEXT_BUILTINS:
            continue
        if isinstance(c.func, ast.Attribute) and c.func.attr in {"join", "format"} and isinstance(c.func.value, ast.Constant) and isinstance(c.func.value.value, str):
            continue
        return False
    outer = st.value
    return isinstance(outer, ast.Call) and isinstance(outer.func, ast.Attribute) and outer.func.attr in {"join", "format"}


def _attr_chain(node: ast.AST) -> str | None:
    parts = []
    while isinstance(node, ast.Attribute):
        parts.append(node.attr)
        node = node.value
    if isinstance(node, ast.Name):
        parts.append(node.id)
        return ".".join(reversed(parts))
    return None


def expand_symbols(spec: str) -> list[str]:
    """Minimal re-implementation of the name grammar of ``sympy.symbols`` that the
    package uses: comma/space separated names and one ``(:n)`` / ``a:b`` range."""
    names: list[str] = []
    for part in re.split(r"[,\s]+", spec.strip()):
        if not part:
            continue
        m = re.fullmatch(r"(.*?)\(?(\d*):(\d+)\)?(.*)", part)
        if m and ":" in part:
            pre, lo, hi, post = m.groups()
            for i in range(int(lo or 0), int(hi)):
                names.append(f"{pre}{i}{post}")
        else:
            names.append(part)
    return names
