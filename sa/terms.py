"""E3 - term extraction from branch-free function bodies into the normal forms of poly.py.

``TermEval`` turns a Python expression AST that *constructs* a SymPy expression into a
value of a small abstract domain: ``RF`` (scalar rational function over atoms), ``Tup``,
``Mat``, ``PW`` (Piecewise), ``Rel`` (comparison) and ``Opaque`` (strings, classes, None).
Applications of repository expression classes become ``App`` atoms whose arguments are
canonicalised through the class's field list; they can be *unfolded* on request by
evaluating the class's ``evaluate`` method in the same way.  Nothing is executed: this is
forward substitution plus algebraic normalisation.

Spellings that denote the same construction evaluate to the same value: ``x is None`` / ``is not`` are
relations like ``==``; ``{**a, **b}`` is the merged dict display; a conditional expression whose test is decided
by constants is its taken arm; ``f = self.__m`` binds the method to the abstract ``self`` (``Bound``) and
``f(...)`` is the call of that method; a statement ``_require_x(pool)`` that calls a helper which only validates
(tests, raises) contributes nothing; under ``fork`` a test outside the grammar is an opaque path label, and a
caller that unpacks the per-path tuples of a forked callee is continued once per path.

Statement grammar of a function body: assignments (tuple unpacking, ``x op= e`` on scalar / matrix
terms, ``d[k] = v`` on a dict value - in place, so a dict held by ``self`` and filled by a helper method
is seen by the caller), ``if`` on tests that constant propagation decides (or forked, see ``fork``),
guard clauses that only raise, ``return``.  Expression grammar: arithmetic, calls of package functions
(inlined) and classes, the SymPy constructors below, list / generator comprehensions over tuples of
known length (``a, b = (f(x) for x in (s, s0))``), and calls of builtins / string methods over
constants (``"".join(map(str, ids))``), which are folded to the constant.

Anything outside the grammar raises ``ExtractionError`` (reported as ANALYSIS-ERROR for
that instance, never as a pass or a violation).
"""

from __future__ import annotations

import ast
import re
from dataclasses import dataclass
from fractions import Fraction
from typing import Any, Callable

from .exprmodel import ExprClass, expression_classes
from .loader import AnalysisError, FuncInfo, Tree, unparse
from .poly import RF, D, Poly, as_rf, sqrt


class ExtractionError(AnalysisError):
    pass


class NoReturn(ExtractionError):
    """The end of a block was reached without a return."""


class RaisedError(ExtractionError):
    """The extracted code raises for the given constants (a guard fired)."""


# ---------------------------------------------------------------------------- values


@dataclass(frozen=True)
class Opaque:
    key: Any

    def __repr__(self) -> str:
        return f"Opaque({self.key!r})"


@dataclass
class Tup:
    items: list

    def key(self):
        return ("tup", tuple(vkey(i) for i in self.items))


@dataclass
class Mat:
    rows: list[list]

    def key(self):
        return ("mat", tuple(tuple(vkey(e) for e in r) for r in self.rows))

    @property
    def shape(self):
        return len(self.rows), len(self.rows[0]) if self.rows else 0

    def transpose(self) -> "Mat":
        return Mat([list(r) for r in zip(*self.rows)])

    def matmul(self, o: "Mat") -> "Mat":
        ot = o.transpose().rows
        return Mat([[sum((a * b for a, b in zip(r, c)), RF.const(0)) for c in ot] for r in self.rows])


@dataclass
class Rel:
    op: str
    lhs: Any
    rhs: Any

    def key(self):
        return ("rel", self.op, vkey(self.lhs), vkey(self.rhs))


@dataclass
class PW:
    branches: list[tuple[Any, Any]]  # (value, condition) ; condition True -> Opaque(True)

    def key(self):
        return ("pw", tuple((vkey(v), vkey(c)) for v, c in self.branches))


@dataclass
class DictV:
    items: list  # list of (key value, value value)

    def key(self):
        return ("dict", tuple(sorted(((vkey(k), vkey(v)) for k, v in self.items), key=repr)))

    def get(self, k):
        kk = vkey(k)
        for a, b in self.items:
            if vkey(a) == kk:
                return b
        return None


@dataclass
class Bound:
    """A method looked up on the abstract `self` without being called (`f = self.__a if flag else self.__b`):
    the function and the receiver it is bound to (None for a staticmethod)."""

    func: str
    recv: Any

    def key(self):
        return ("bound", self.func, vkey(self.recv))


@dataclass
class AppInfo:
    """What an App atom stands for (kept in a side table keyed by the atom)."""

    cls: str  # qualname of the expression class or name of an external function
    args: list  # values in field order (repo classes) / positional (external)
    kwargs: dict


def vkey(v) -> Any:
    if isinstance(v, RF):
        return v.key()
    if isinstance(v, (Tup, Mat, Rel, PW, DictV, Bound)):
        return v.key()
    if isinstance(v, dict):
        return ("struct", tuple(sorted((str(k), vkey(x)) for k, x in v.items())))
    if isinstance(v, Opaque):
        return ("opaque", v.key)
    if isinstance(v, (int, Fraction)):
        return RF.const(v).key()
    if v is None:
        return ("opaque", None)
    if isinstance(v, (str, bool)):
        return ("opaque", v)
    if isinstance(v, list):
        return ("tup", tuple(vkey(i) for i in v))
    raise ExtractionError(f"no canonical key for {type(v).__name__}")


# external functions that stay opaque applications (name -> arity or None)
OPAQUE_FUNCS = {
    "Abs", "log", "atan", "atan2", "acos", "asin", "cos", "sin", "tan", "exp", "conjugate", "factorial",
    "re", "im", "sign", "Max", "Min", "floor",
}
RELATIONALS = {
    "LessThan": "<=", "Le": "<=", "StrictLessThan": "<", "Lt": "<", "GreaterThan": ">=", "Ge": ">=",
    "StrictGreaterThan": ">", "Gt": ">", "Eq": "==", "Equality": "==", "Ne": "!=", "Unequality": "!=",
}
# external callables whose arguments are canonicalised to keywords (name -> positional order)
EXTERNAL_SIGNATURES = {
    "D": ["j", "m", "mp", "alpha", "beta", "gamma"],  # sympy.physics.quantum.spin.Rotation.D
    "d": ["j", "m", "mp", "beta"],  # Rotation.d
    "CG": ["j1", "m1", "j2", "m2", "j3", "m3"],
    "WignerD": ["j", "m", "mp", "alpha", "beta", "gamma"],
}
IDENTITY_FUNCS = {"sympify", "_sympify", "S", "nsimplify", "Rational1"}
SYMPY_CONSTANTS = {"I": "I", "pi": "pi", "oo": "oo"}


class TermEval:
    def __init__(self, tree: Tree, inline_depth: int = 4) -> None:
        self.tree = tree
        self.classes: dict[str, ExprClass] = expression_classes(tree)
        self.apps: dict[Any, AppInfo] = {}
        self.inline_depth = inline_depth
        # when True, an `if` on a non-constant test forks the evaluation: the function value becomes
        # PW([(value on the true path, test), (value on the false path, else)]).  Only checks that
        # judge every path separately may switch this on (a PW inside arithmetic is opaque).
        self.fork = False
        self.symbol_assumptions: dict[str, dict] = {}
        # hooks: qualname -> callable(evaluator, args, kwargs) overriding inlining
        self.overrides: dict[str, Callable] = {}

    # ------------------------------------------------------------------ atoms
    def app(self, name: str, args: list, kwargs: dict | None = None) -> RF:
        kwargs = kwargs or {}
        key = ("app", name, tuple(vkey(a) for a in args), tuple(sorted((k, vkey(v)) for k, v in kwargs.items())))
        self.apps[key] = AppInfo(name, list(args), dict(kwargs))
        return RF.atom(key)

    def is_app(self, atom, cls_suffix: str | None = None) -> bool:
        return isinstance(atom, tuple) and atom and atom[0] == "app" and (cls_suffix is None or atom[1].endswith(cls_suffix))

    def single_atom(self, v: RF):
        """If ``v`` is exactly one atom (coefficient 1), return it."""
        r = v.normalized()
        if r.d.is_const() and r.d.const_value() == 1 and len(r.n.t) == 1:
            ((m, c),) = r.n.t.items()
            if c == 1 and len(m) == 1 and m[0][1] == 1:
                return m[0][0]
        return None

    # ------------------------------------------------------------ expressions
    def ev(self, node: ast.AST, env: dict, fn: FuncInfo | None = None, depth: int = 0):
        m = getattr(self, f"_ev_{type(node).__name__}", None)
        if m is None:
            raise ExtractionError(f"outside term grammar: {type(node).__name__} `{unparse(node)[:60]}`")
        return m(node, env, fn, depth)

    def _ev_Constant(self, node, env, fn, depth):
        v = node.value
        if isinstance(v, bool) or v is None or isinstance(v, str):
            return Opaque(v)
        if isinstance(v, int):
            return RF.const(v)
        if isinstance(v, float):
            return RF.const(Fraction(str(v)))
        raise ExtractionError(f"constant {v!r}")

    def _ev_Name(self, node, env, fn, depth):
        if node.id in env:
            return env[node.id]
        # module-level name: class / function / constant
        if fn is not None:
            target = self.tree.resolve(fn.module, node, fn)
            if target:
                return Opaque(("ref", target))
        raise ExtractionError(f"unbound name `{node.id}`")

    def _ev_UnaryOp(self, node, env, fn, depth):
        v = self.ev(node.operand, env, fn, depth)
        if isinstance(node.op, ast.USub):
            return -self._rf(v, node)
        if isinstance(node.op, ast.UAdd):
            return v
        if isinstance(node.op, ast.Not):
            return Opaque(("not", vkey(v)))
        raise ExtractionError(f"unary {type(node.op).__name__}")

    def _rf(self, v, node=None) -> RF:
        if isinstance(v, RF):
            return v
        if isinstance(v, (int, Fraction)):
            return RF.const(v)
        if isinstance(v, Opaque) and isinstance(v.key, tuple) and v.key and v.key[0] in {"ref", "attr"}:
            return RF.atom(("sym", v.key))
        if isinstance(v, PW):
            # a Piecewise inside arithmetic: one opaque application over its branches
            return self.app("Piecewise", [Tup([val, cond]) for val, cond in v.branches])
        raise ExtractionError(f"scalar expected, got {type(v).__name__} in `{unparse(node)[:60] if node is not None else ''}`")

    def _ev_BinOp(self, node, env, fn, depth):
        lhs = self.ev(node.left, env, fn, depth)
        rhs = self.ev(node.right, env, fn, depth)
        if isinstance(lhs, Mat) or isinstance(rhs, Mat):
            return self._mat_binop(node, lhs, rhs)
        lv, rv = self._rf(lhs, node.left), self._rf(rhs, node.right)
        op = node.op
        if isinstance(op, ast.Add):
            return lv + rv
        if isinstance(op, ast.Sub):
            return lv - rv
        if isinstance(op, ast.Mult):
            return lv * rv
        if isinstance(op, ast.Div):
            return lv / rv
        if isinstance(op, ast.Pow):
            return lv**rv
        raise ExtractionError(f"binary operator {type(op).__name__}")

    def _mat_binop(self, node, lhs, rhs):
        op = node.op
        if isinstance(lhs, Mat) and isinstance(rhs, Mat):
            if isinstance(op, (ast.Mult, ast.MatMult)):
                return lhs.matmul(rhs)
            if isinstance(op, (ast.Add, ast.Sub)):
                f = (lambda a, b: a + b) if isinstance(op, ast.Add) else (lambda a, b: a - b)
                return Mat([[f(a, b) for a, b in zip(r1, r2)] for r1, r2 in zip(lhs.rows, rhs.rows)])
        raise ExtractionError("matrix operation outside grammar")

    def _ev_Compare(self, node, env, fn, depth):
        if len(node.ops) != 1:
            raise ExtractionError("chained comparison")
        ops = {ast.Lt: "<", ast.LtE: "<=", ast.Gt: ">", ast.GtE: ">=", ast.Eq: "==", ast.NotEq: "!=", ast.Is: "is", ast.IsNot: "is not"}
        op = ops.get(type(node.ops[0]))
        if op is None:
            raise ExtractionError(f"comparison {type(node.ops[0]).__name__}")
        return Rel(op, self.ev(node.left, env, fn, depth), self.ev(node.comparators[0], env, fn, depth))

    def _ev_Tuple(self, node, env, fn, depth):
        items = []
        for e in node.elts:
            if isinstance(e, ast.Starred):
                v = self.ev(e.value, env, fn, depth)
                if not isinstance(v, Tup):
                    raise ExtractionError("starred non-tuple")
                items.extend(v.items)
            else:
                items.append(self.ev(e, env, fn, depth))
        return Tup(items)

    _ev_List = _ev_Tuple

    def _ev_JoinedStr(self, node, env, fn, depth):
        parts = []
        for v in node.values:
            if isinstance(v, ast.Constant):
                parts.append(str(v.value))
            else:
                try:
                    parts.append(str(self.const(v.value, env, fn)))
                    continue
                except (TermEval.NotConst, ExtractionError):
                    pass
                val = self.ev(v.value, env, fn, depth)
                parts.append(self._to_text(val, v.value))
        return Opaque("".join(parts))

    def _to_text(self, val, node) -> str:
        if isinstance(val, Opaque) and isinstance(val.key, (str, int)):
            return str(val.key)
        if isinstance(val, RF) and val.is_const():
            c = val.const_value()
            return str(c.numerator) if c.denominator == 1 else str(c)
        if isinstance(val, RF):
            a = self.single_atom(val)
            if isinstance(a, str):
                return "{" + a + "}"
        if isinstance(val, Opaque):
            return "<" + re.sub(r"[^A-Za-z0-9_.]+", "_", repr(val.key)) + ">"
        raise ExtractionError(f"f-string placeholder `{unparse(node)}` is not a constant")

    def _ev_Attribute(self, node, env, fn, depth):
        # sp.I, sp.pi, sp.S.One ...
        chain = _attr_chain(node)
        if chain:
            head, *rest = chain.split(".")
            if head in env:
                base = env[head]
                if head in {"self", "cls"} and isinstance(base, dict) and len(rest) == 1 and rest[0] not in base and fn is not None:
                    target = self.tree.resolve(fn.module, node, fn)
                    if target in self.tree.funcs:  # a method of the class, not a field: the bound method
                        static = any(unparse(d) == "staticmethod" for d in self.tree.funcs[target].node.decorator_list)
                        return Bound(target, None if static else base)
                return self._attr_of(base, rest, node)
            if fn is not None:
                target = self.tree.resolve(fn.module, node, fn)
                if target:
                    if target.startswith("sympy."):
                        name = target.split(".")[-1]
                        if name in SYMPY_CONSTANTS:
                            return RF.atom(SYMPY_CONSTANTS[name])
                        if name in {"One"}:
                            return RF.const(1)
                        if name in {"Zero"}:
                            return RF.const(0)
                        if name in {"Half"}:
                            return RF.const(Fraction(1, 2))
                        if name in {"NegativeOne"}:
                            return RF.const(-1)
                    return Opaque(("ref", target))
        base = self.ev(node.value, env, fn, depth)
        return self._attr_of(base, [node.attr], node)

    def _attr_of(self, base, attrs: list[str], node):
        for a in attrs:
            if isinstance(base, dict):  # struct (self with fields)
                if a in base:
                    base = base[a]
                    continue
                raise ExtractionError(f"unknown attribute .{a} in `{unparse(node)}`")
            if isinstance(base, RF):
                atom = self.single_atom(base)
                if atom is not None and isinstance(atom, (str, tuple)):
                    key = atom if not (isinstance(atom, tuple) and atom[0] == "sym") else atom[1]
                    base = RF.atom(("sym", ("attr", key, a)))
                    continue
            if isinstance(base, Opaque):
                base = Opaque(("attr", base.key, a))
                continue
            raise ExtractionError(f"attribute .{a} of {type(base).__name__} in `{unparse(node)}`")
        return base

    def _ev_Subscript(self, node, env, fn, depth):
        base = self.ev(node.value, env, fn, depth)
        if isinstance(node.slice, ast.Slice):
            raise ExtractionError("slice")
        idx = self.ev(node.slice, env, fn, depth)
        if isinstance(base, Tup):
            if isinstance(idx, RF) and idx.is_const():
                return base.items[int(idx.const_value())]
            raise ExtractionError("non-constant tuple index")
        if isinstance(base, Mat):
            if isinstance(idx, Tup) and all(isinstance(i, RF) and i.is_const() for i in idx.items):
                i, j = (int(x.const_value()) for x in idx.items)
                return base.rows[i][j]
            raise ExtractionError("matrix index")
        if isinstance(base, dict) and isinstance(idx, RF) and idx.is_const():
            return base[int(idx.const_value())]
        idx_items = idx.items if isinstance(idx, Tup) else [idx]
        if isinstance(base, Opaque) and isinstance(base.key, tuple) and base.key[0] in {"ref", "attr"}:
            return RF.atom(("sym", ("attr", base.key, ("idx", tuple(vkey(i) for i in idx_items)))))
        bkey = vkey(self._rf(base, node.value))
        return RF.atom(("idx", bkey, tuple(vkey(i) for i in idx_items)))

    def _ev_IfExp(self, node, env, fn, depth):
        # decided by constant propagation (a flag of the abstract `self`, an index): the value of the taken arm
        try:
            decided = self.const(node.test, env, fn)
        except TermEval.NotConst:
            decided = None
        if isinstance(decided, bool):
            return self.ev(node.body if decided else node.orelse, env, fn, depth)
        raise ExtractionError("conditional expression")

    def _ev_BoolOp(self, node, env, fn, depth):
        vals = [self.ev(v, env, fn, depth) for v in node.values]
        return Opaque((type(node.op).__name__.lower(), tuple(vkey(v) for v in vals)))

    def _ev_GeneratorExp(self, node, env, fn, depth):
        """A comprehension over collections of known length and order (tuple / list values): the tuple of its
        element values in iteration order.  Filters must be decidable over constants."""
        out: list = []

        def rec(gens, env_):
            if not gens:
                out.append(self.ev(node.elt, env_, fn, depth))
                return
            g = gens[0]
            if g.is_async:
                raise ExtractionError("async comprehension")
            try:
                seq = self.ev(g.iter, env_, fn, depth)
            except ExtractionError as exc:
                if isinstance(exc, RaisedError):
                    raise
                try:
                    seq = self._from_py(self.const(g.iter, env_, fn))
                except TermEval.NotConst:
                    raise exc from None
            if not isinstance(seq, Tup):
                raise ExtractionError(f"comprehension over `{unparse(g.iter)[:50]}`: not a collection of known length and order")
            for item in seq.items:
                env2 = dict(env_)
                self._assign(g.target, item, env2, fn, depth)
                keep = True
                for cond in g.ifs:
                    try:
                        decided = self.const(cond, env2, fn)
                    except TermEval.NotConst:
                        raise ExtractionError(f"comprehension filter `{unparse(cond)[:50]}` is not decidable over constants") from None
                    if not decided:
                        keep = False
                        break
                if keep:
                    rec(gens[1:], env2)

        rec(list(node.generators), env)
        return Tup(out)

    _ev_ListComp = _ev_GeneratorExp

    def _ev_Dict(self, node, env, fn, depth):
        items = []
        for k, v in zip(node.keys, node.values):
            if k is None:
                # `{**a, k: v}`: the entries of a dict value, later entries replacing earlier ones with an equal key
                other = self.ev(v, env, fn, depth)
                if not isinstance(other, DictV):
                    raise ExtractionError("dict unpacking of a value that is not a dict display")
                new = list(other.items)
            else:
                new = [(self.ev(k, env, fn, depth), self.ev(v, env, fn, depth))]
            for kk, vv in new:
                items = [(a, b) for a, b in items if vkey(a) != vkey(kk)] + [(kk, vv)]
        return DictV(items)

    # ------------------------------------------------------------------ calls
    def _ev_Call(self, node: ast.Call, env, fn, depth):
        func = node.func
        # method calls on values: x.doit(), m.inv(), q.evaluate()
        if isinstance(func, ast.Attribute):
            chain = _attr_chain(func)
            head = chain.split(".")[0] if chain else None
            if head is None or head in env:
                recv_known = True
            else:
                recv_known = False
            if recv_known and func.attr in {"doit", "simplify", "expand"} and not node.args:
                return self.ev(func.value, env, fn, depth)
            if recv_known and func.attr == "transpose" and not node.args:
                v = self.ev(func.value, env, fn, depth)
                if isinstance(v, Mat):
                    return v.transpose()
        args = None
        callee = None
        if fn is not None:
            callee = self.tree.resolve(fn.module, func, fn)
        # a callable held in the environment (parameter / field): opaque application
        if callee is None:
            # a call of a builtin / a method of a constant over constants (`"".join(map(str, ids))`, `len(t)`)
            # is that constant: the same value whether it is written inside an f-string or passed to a helper
            try:
                return self._from_py(self.const(node, env, fn))
            except TermEval.NotConst:
                pass
            fval = None
            try:
                fval = self.ev(func, env, fn, depth)
            except ExtractionError:
                fval = None
            known = isinstance(fval, Opaque) and isinstance(fval.key, tuple) and fval.key[0] == "ref" and (
                fval.key[1] in self.tree.funcs or fval.key[1] in self.tree.classes or fval.key[1].startswith("sympy.")
            )
            if known:
                callee = fval.key[1]
            elif isinstance(fval, Bound):
                # the call of a bound method held in a local: the call of that method on that receiver
                if depth >= self.inline_depth:
                    raise ExtractionError(f"inlining depth exceeded at {fval.func}")
                args, kwargs = self._args(node, env, fn, depth)
                if fval.func in self.overrides:
                    return self.overrides[fval.func](self, args, kwargs)
                if fval.recv is not None:
                    args = [fval.recv, *args]
                return self.eval_function(self.tree.funcs[fval.func], args, kwargs, depth + 1)
            elif fval is not None:
                args = [self.ev(a, env, fn, depth) for a in node.args]
                kwargs = {k.arg: self.ev(k.value, env, fn, depth) for k in node.keywords if k.arg}
                return self.app("call:" + repr(vkey(fval)), args, kwargs)
        if callee is None and isinstance(func, ast.Name) and func.id in {"int", "float"} and func.id not in env and len(node.args) == 1 and not node.keywords:
            return self.ev(node.args[0], env, fn, depth)  # the builtin conversion of a term: the term (as in `call`)
        if callee is None:
            raise ExtractionError(f"unresolved call `{unparse(node)[:70]}`")
        return self.call(callee, node, env, fn, depth)

    def _args(self, node, env, fn, depth):
        args = []
        for a in node.args:
            if isinstance(a, ast.Starred):
                v = self.ev(a.value, env, fn, depth)
                if not isinstance(v, Tup):
                    raise ExtractionError("starred non-tuple argument")
                args.extend(v.items)
            else:
                args.append(self.ev(a, env, fn, depth))
        kwargs = {}
        for k in node.keywords:
            if k.arg is None:
                # **mapping: accepted when the mapping is a dict display with constant string keys
                mapping = self.ev(k.value, env, fn, depth)
                if not isinstance(mapping, DictV):
                    raise ExtractionError("**kwargs in call (not a literal dict)")
                for kk, vv in mapping.items:
                    if not (isinstance(kk, Opaque) and isinstance(kk.key, str)):
                        raise ExtractionError("**kwargs with non-constant keys")
                    if kk.key in kwargs:
                        raise ExtractionError(f"keyword {kk.key} given twice")
                    kwargs[kk.key] = vv
                continue
            if k.arg in kwargs:
                raise ExtractionError(f"keyword {k.arg} given twice")
            kwargs[k.arg] = self.ev(k.value, env, fn, depth)
        return args, kwargs

    def call(self, callee: str, node: ast.Call, env, fn, depth):
        name = callee.split(".")[-1].split("::")[-1]
        if callee in self.overrides:
            args, kwargs = self._args(node, env, fn, depth)
            return self.overrides[callee](self, args, kwargs)
        if callee.startswith("sympy."):
            return self._sympy_call(name, node, env, fn, depth)
        if callee in self.classes:
            args, kwargs = self._args(node, env, fn, depth)
            return self.construct(callee, args, kwargs)
        if callee in self.tree.classes:
            args, kwargs = self._args(node, env, fn, depth)
            if name == "ComplexSqrt":
                return self.app("ComplexSqrt", args[:1])
            return self.app(name, args, kwargs)
        if callee in self.tree.funcs:
            if depth >= self.inline_depth:
                raise ExtractionError(f"inlining depth exceeded at {callee}")
            args, kwargs = self._args(node, env, fn, depth)
            target = self.tree.funcs[callee]
            is_static = any(unparse(d) == "staticmethod" for d in target.node.decorator_list)
            if target.cls is not None and target.outer is None and not is_static and isinstance(node.func, ast.Attribute):
                recv = node.func.value
                if isinstance(recv, ast.Name) and recv.id in {"self", "cls"} and recv.id in env:
                    args = [env[recv.id], *args]
                elif not (isinstance(recv, ast.Name) and recv.id in {"self", "cls"}):
                    # Class.method(...) on a repo class: classmethod/static style without instance
                    if any(unparse(d) == "classmethod" for d in target.node.decorator_list):
                        args = [Opaque(("ref", target.cls.qual)), *args]
            if target.outer is not None:
                # closure: the nested function sees the enclosing environment
                inner_env = {**env, **self.bind_params(target, args, kwargs)}
                return self.eval_body(target.node.body, inner_env, target, depth + 1)
            return self.eval_function(target, args, kwargs, depth + 1)
        if callee in {"builtins.float", "builtins.int"} or name in {"float", "int"} and "::" not in callee:
            return self.ev(node.args[0], env, fn, depth)
        raise ExtractionError(f"call of external `{callee}` outside grammar")

    def construct(self, cls_qual: str, args: list, kwargs: dict) -> RF:
        cls = self.classes[cls_qual]
        fields = cls.fields
        if len(args) > len(fields):
            raise ExtractionError(f"{cls.name}: {len(args)} positional arguments for {len(fields)} fields")
        values: dict[str, Any] = {}
        for f, a in zip(fields, args):
            values[f.name] = a
        for k, v in kwargs.items():
            if k in {"evaluate"}:
                continue
            if k not in {f.name for f in fields}:
                raise ExtractionError(f"{cls.name}: unknown field {k}")
            if k in values:
                raise ExtractionError(f"{cls.name}: field {k} given twice")
            values[k] = v
        ordered = []
        extra = {}
        for f in fields:
            if f.name in values:
                v = values[f.name]
            elif f.default is not None:
                v = Opaque(("default", unparse(f.default)))
                if isinstance(f.default, ast.Constant) and isinstance(f.default.value, (int, float)) and not isinstance(f.default.value, bool):
                    v = RF.const(Fraction(str(f.default.value)))
                elif isinstance(f.default, (ast.Name, ast.Attribute)):
                    tgt = self.tree.resolve(cls.info.module, f.default)
                    if tgt:
                        v = Opaque(("ref", tgt))
            else:
                raise ExtractionError(f"{cls.name}: missing field {f.name}")
            if f.sympify:
                ordered.append(v)
            else:
                # `name` is presentation only
                if f.name != "name":
                    extra[f.name] = v
        return self.app(cls_qual, ordered, extra)

    def _sympy_call(self, name: str, node: ast.Call, env, fn, depth):
        if name == "sqrt":
            return sqrt(self._rf(self.ev(node.args[0], env, fn, depth), node.args[0]))
        if name in {"Symbol", "Dummy", "IndexedBase", "MatrixSymbol", "Wild"}:
            nm = self.ev(node.args[0], env, fn, depth) if node.args else Opaque(f"_dummy{id(node)}")
            if not (isinstance(nm, Opaque) and isinstance(nm.key, str)):
                raise ExtractionError(f"symbol name not constant: `{unparse(node)}`")
            self.symbol_assumptions[nm.key] = {k.arg: unparse(k.value) for k in node.keywords if k.arg and k.arg != "shape"}
            return RF.atom(nm.key)
        if name == "symbols":
            nm = self.ev(node.args[0], env, fn, depth)
            if not (isinstance(nm, Opaque) and isinstance(nm.key, str)):
                raise ExtractionError("symbols() with non-constant names")
            names = expand_symbols(nm.key)
            for n in names:
                self.symbol_assumptions[n] = {k.arg: unparse(k.value) for k in node.keywords if k.arg}
            return Tup([RF.atom(n) for n in names]) if len(names) > 1 or "," in nm.key or " " in nm.key.strip() else RF.atom(names[0])
        if name == "Rational":
            args = [self.ev(a, env, fn, depth) for a in node.args]
            if len(args) == 1:
                return args[0]
            return self._rf(args[0]) / self._rf(args[1])
        if name in {"Integer", "Float", "sympify", "S", "nsimplify", "_sympify", "UnevaluatedExpr"}:
            return self.ev(node.args[0], env, fn, depth)
        if name in {"Mul", "Add"}:
            vals = [self._rf(self.ev(a, env, fn, depth), a) for a in node.args if not isinstance(a, ast.Starred)]
            for a in node.args:
                if isinstance(a, ast.Starred):
                    v = self.ev(a.value, env, fn, depth)
                    if not isinstance(v, Tup):
                        raise ExtractionError("starred non-tuple in Add/Mul")
                    vals.extend(self._rf(x) for x in v.items)
            out = RF.const(1 if name == "Mul" else 0)
            for v in vals:
                out = out * v if name == "Mul" else out + v
            return out
        if name == "Pow":
            b, e = (self._rf(self.ev(a, env, fn, depth), a) for a in node.args[:2])
            return b**e
        if name == "Piecewise":
            branches = []
            for a in node.args:
                t = self.ev(a, env, fn, depth)
                if not (isinstance(t, Tup) and len(t.items) == 2):
                    raise ExtractionError("Piecewise branch is not a pair")
                branches.append((t.items[0], t.items[1]))
            return PW(branches)
        if name in {"Matrix", "ImmutableMatrix", "MutableDenseMatrix"}:
            v = self.ev(node.args[0], env, fn, depth)
            if isinstance(v, Tup) and all(isinstance(r, Tup) for r in v.items):
                return Mat([[self._rf(e) for e in r.items] for r in v.items])
            raise ExtractionError("Matrix literal shape")
        if name in {"Tuple"}:
            return Tup([self.ev(a, env, fn, depth) for a in node.args])
        if name in RELATIONALS:
            lhs, rhs = (self.ev(a, env, fn, depth) for a in node.args[:2])
            return Rel(RELATIONALS[name], lhs, rhs)
        if name in {"Sum", "Integral", "Product"}:
            args = [self.ev(a, env, fn, depth) for a in node.args]
            return self.app(name, args)
        if name in EXTERNAL_SIGNATURES:
            sig = EXTERNAL_SIGNATURES[name]
            args, kwargs = self._args(node, env, fn, depth)
            if len(args) > len(sig):
                raise ExtractionError(f"{name}: too many positional arguments")
            named = dict(zip(sig, args))
            for k, v in kwargs.items():
                if k in named:
                    raise ExtractionError(f"{name}: argument {k} given twice")
                named[k] = v
            return self.app(name, [], named)
        if name in OPAQUE_FUNCS:
            args = [self.ev(a, env, fn, depth) for a in node.args]
            if name == "conjugate" and isinstance(args[0], RF) and "I" not in _all_atoms(args[0]) and False:
                return args[0]
            return self.app(name, args)
        raise ExtractionError(f"sympy.{name} outside grammar")

    # ------------------------------------------------- constant propagation
    class NotConst(Exception):
        pass

    def _to_py(self, v):
        if isinstance(v, RF) and v.is_const():
            c = v.const_value()
            if c.denominator == 1:
                return int(c)
        if isinstance(v, Opaque) and isinstance(v.key, (str, bool)) or (isinstance(v, Opaque) and v.key is None):
            return v.key
        if isinstance(v, Tup):
            return tuple(self._to_py(i) for i in v.items)
        if isinstance(v, (int, str, bool, tuple, frozenset)):
            return v
        raise TermEval.NotConst

    def const(self, node: ast.AST, env: dict, fn: FuncInfo | None, depth: int = 0):
        """Evaluate a Python-level expression over constants (ints, strings, tuples, sets).
        Raises NotConst if it involves anything symbolic."""
        NC = TermEval.NotConst
        if isinstance(node, ast.Constant):
            if isinstance(node.value, (int, str, bool)) or node.value is None:
                return node.value
            raise NC
        if isinstance(node, ast.Name):
            if node.id in env:
                return self._to_py(env[node.id])
            raise NC
        if isinstance(node, ast.Attribute) and isinstance(node.value, ast.Name) and isinstance(env.get(node.value.id), dict):
            struct = env[node.value.id]
            if node.attr in struct:
                return self._to_py(struct[node.attr])
            raise NC
        if isinstance(node, ast.Tuple):
            return tuple(self.const(e, env, fn, depth) for e in node.elts)
        if isinstance(node, ast.Set):
            return frozenset(self.const(e, env, fn, depth) for e in node.elts)
        if isinstance(node, ast.UnaryOp) and isinstance(node.op, ast.Not):
            return not self.const(node.operand, env, fn, depth)
        if isinstance(node, ast.BoolOp):
            vals = [self.const(v, env, fn, depth) for v in node.values]
            return all(vals) if isinstance(node.op, ast.And) else any(vals)
        if isinstance(node, ast.BinOp):
            a, b = self.const(node.left, env, fn, depth), self.const(node.right, env, fn, depth)
            if isinstance(a, frozenset) and isinstance(b, frozenset):
                if isinstance(node.op, ast.Sub):
                    return a - b
                if isinstance(node.op, ast.BitOr):
                    return a | b
                if isinstance(node.op, ast.BitAnd):
                    return a & b
            if isinstance(a, int) and isinstance(b, int) and isinstance(node.op, (ast.Add, ast.Sub, ast.Mult)):
                return {ast.Add: a + b, ast.Sub: a - b, ast.Mult: a * b}[type(node.op)]
            if isinstance(a, int) and isinstance(b, int) and b != 0 and isinstance(node.op, (ast.Mod, ast.FloorDiv)):
                return a % b if isinstance(node.op, ast.Mod) else a // b
            raise NC
        if isinstance(node, ast.Compare) and len(node.ops) == 1 and isinstance(node.ops[0], (ast.Is, ast.IsNot)) and isinstance(node.comparators[0], ast.Constant) and node.comparators[0].value is None and isinstance(node.left, ast.Name) and node.left.id in env:
            # `x is None` for a name bound to a term value (a symbol, an expression): decided - it is not None
            v = env[node.left.id]
            if isinstance(v, (RF, Tup, Mat, PW, Rel, DictV)) or (isinstance(v, Opaque) and v.key is not None and v.key != ("const", None)):
                return isinstance(node.ops[0], ast.IsNot)
        if isinstance(node, ast.Compare) and len(node.ops) == 1:
            a, b = self.const(node.left, env, fn, depth), self.const(node.comparators[0], env, fn, depth)
            op = node.ops[0]
            if isinstance(op, ast.Eq):
                return a == b
            if isinstance(op, ast.NotEq):
                return a != b
            if isinstance(op, (ast.In, ast.NotIn)):
                try:
                    r = a in b
                except TypeError:
                    r = False
                return r if isinstance(op, ast.In) else not r
            if isinstance(op, ast.LtE):
                return a <= b
            if isinstance(op, ast.Lt):
                return a < b
            if isinstance(op, ast.GtE):
                return a >= b
            if isinstance(op, ast.Gt):
                return a > b
            if isinstance(op, ast.Is):
                return a is b
            if isinstance(op, ast.IsNot):
                return a is not b
            raise NC
        if isinstance(node, ast.JoinedStr):
            out = []
            for v in node.values:
                if isinstance(v, ast.Constant):
                    out.append(str(v.value))
                else:
                    out.append(str(self.const(v.value, env, fn, depth)))
            return "".join(out)
        if isinstance(node, ast.Call):
            f = node.func
            if isinstance(f, ast.Name) and f.id == "sorted" and len(node.args) == 1 and len(node.keywords) == 1 and node.keywords[0].arg == "reverse" and isinstance(node.keywords[0].value, ast.Constant):
                return tuple(sorted(self.const(node.args[0], env, fn, depth), reverse=bool(node.keywords[0].value.value)))
            if isinstance(f, ast.Name) and f.id in {"sorted", "tuple", "list", "set", "frozenset", "str", "int", "len", "next", "iter", "map"} and not node.keywords:
                args = [self.const(a, env, fn, depth) if not (f.id == "map" and i == 0) else a for i, a in enumerate(node.args)]
                if f.id == "sorted":
                    return tuple(sorted(args[0]))
                if f.id in {"tuple", "list"}:
                    return tuple(args[0])
                if f.id in {"set", "frozenset"}:
                    return frozenset(args[0])
                if f.id == "str":
                    return str(args[0])
                if f.id == "int":
                    return int(args[0])
                if f.id == "len":
                    return len(args[0])
                if f.id == "iter":
                    return tuple(sorted(args[0])) if isinstance(args[0], frozenset) else tuple(args[0])
                if f.id == "next":
                    seq = args[0]
                    if isinstance(seq, frozenset):
                        seq = tuple(sorted(seq))
                    if len(seq) != 1:
                        raise ExtractionError("next(iter(...)) of a constant collection that is not a singleton: the picked element is not determined")
                    return seq[0]
                if f.id == "map" and isinstance(node.args[0], ast.Name) and node.args[0].id == "str":
                    return tuple(str(x) for x in args[1])
                raise NC
            if isinstance(f, ast.Attribute) and f.attr == "join" and len(node.args) == 1:
                sep = self.const(f.value, env, fn, depth)
                return sep.join(self.const(node.args[0], env, fn, depth))
            if fn is not None and depth < 4:
                callee = self.tree.resolve(fn.module, f, fn)
                if callee in self.tree.funcs:
                    g = self.tree.funcs[callee]
                    if all(isinstance(st, (ast.Assign, ast.Return, ast.Expr)) for st in g.node.body):
                        cargs = [self.const(a, env, fn, depth) for a in node.args]
                        cenv = {p: (RF.const(v) if isinstance(v, int) and not isinstance(v, bool) else Opaque(v) if isinstance(v, (str, bool)) or v is None else v) for p, v in zip(g.params, cargs)}
                        for st in g.node.body:
                            if isinstance(st, ast.Expr):
                                continue
                            if isinstance(st, ast.Assign) and isinstance(st.targets[0], ast.Name):
                                cenv[st.targets[0].id] = self.const(st.value, cenv, g, depth + 1)
                            elif isinstance(st, ast.Return):
                                return self.const(st.value, cenv, g, depth + 1)
            raise NC
        raise NC

    def _from_py(self, v):
        if isinstance(v, bool) or v is None or isinstance(v, str):
            return Opaque(v)
        if isinstance(v, int):
            return RF.const(v)
        if isinstance(v, tuple):
            return Tup([self._from_py(x) for x in v])
        if isinstance(v, frozenset):
            return v
        raise ExtractionError(f"constant of type {type(v).__name__}")

    # -------------------------------------------------------------- functions
    def bind_params(self, fn: FuncInfo, args: list, kwargs: dict, skip_first: bool = False) -> dict:
        a = fn.node.args
        pos = [*a.posonlyargs, *a.args]
        if skip_first and pos:
            pos = pos[1:]
        env: dict[str, Any] = {}
        if len(args) > len(pos) and a.vararg is None:
            raise ExtractionError(f"{fn.qual}: too many positional arguments")
        for p, v in zip(pos, args):
            env[p.arg] = v
        for k, v in kwargs.items():
            env[k] = v
        defaults = dict(zip([p.arg for p in pos][len(pos) - len(a.defaults):], a.defaults))
        for p in a.kwonlyargs:
            pass
        for p, dflt in zip(a.kwonlyargs, a.kw_defaults):
            if dflt is not None:
                defaults[p.arg] = dflt
        for p in [*pos, *a.kwonlyargs]:
            if p.arg not in env:
                if p.arg in defaults:
                    try:
                        env[p.arg] = self.ev(defaults[p.arg], {}, fn, 0)
                    except ExtractionError:
                        env[p.arg] = Opaque(("default", unparse(defaults[p.arg])))
                else:
                    raise ExtractionError(f"{fn.qual}: missing argument {p.arg}")
        return env

    def eval_function(self, fn: FuncInfo, args: list, kwargs: dict | None = None, depth: int = 0, env: dict | None = None):
        env = dict(env) if env is not None else self.bind_params(fn, args, kwargs or {})
        return self.eval_body(fn.node.body, env, fn, depth)

    def eval_body(self, body: list[ast.stmt], env: dict, fn: FuncInfo, depth: int = 0):
        for idx, st in enumerate(body):
            if isinstance(st, ast.Expr) and isinstance(st.value, ast.Constant):
                continue  # docstring
            if isinstance(st, ast.Expr) and isinstance(st.value, ast.Call) and isinstance(st.value.func, ast.Attribute):
                call = st.value
                recv = call.func.value
                if call.func.attr == "update" and isinstance(recv, ast.Name) and isinstance(env.get(recv.id), DictV) and len(call.args) == 1:
                    other = self.ev(call.args[0], env, fn, depth)
                    if not isinstance(other, DictV):
                        raise ExtractionError("dict.update with a non-literal mapping")
                    merged = list(env[recv.id].items)
                    for k, v in other.items:
                        merged = [(a, b) for a, b in merged if vkey(a) != vkey(k)] + [(k, v)]
                    env[recv.id] = DictV(merged)
                    continue
                base = recv
                while isinstance(base, (ast.Attribute, ast.Subscript, ast.Call)):
                    base = base.value if not isinstance(base, ast.Call) else base.func
                if isinstance(base, ast.Name) and base.id in {"_LOGGER", "logging", "warnings", "printer"}:
                    continue  # logging / printer bookkeeping does not contribute to the term
            if isinstance(st, ast.Expr) and isinstance(st.value, ast.Call):
                # `_require_x(pool)`: a helper whose value is discarded and whose body only validates (tests,
                # raises, string locals - no stores, no calls as statements) contributes nothing to the term;
                # it is evaluated so that a guard that fires for these constants still raises here
                callee = self.tree.resolve(fn.module, st.value.func, fn)
                target = self.tree.funcs.get(callee) if callee else None
                if target is not None and _only_validates(target.node.body):
                    try:
                        self.ev(st.value, env, fn, depth)
                    except NoReturn:
                        pass
                    continue
            if isinstance(st, (ast.Import, ast.ImportFrom, ast.Pass)):
                continue
            if isinstance(st, (ast.FunctionDef,)):
                env[st.name] = Opaque(("localfunc", st.name))
                env[("localfunc", st.name)] = st
                continue
            if isinstance(st, ast.Return):
                if st.value is None:
                    raise ExtractionError("bare return")
                return self.ev(st.value, env, fn, depth)
            if isinstance(st, ast.Raise):
                raise RaisedError(f"{fn.qual}: raises `{unparse(st.exc)[:60] if st.exc is not None else ''}`")
            if isinstance(st, ast.AnnAssign):
                if st.value is None:
                    continue
                self._assign(st.target, self.ev(st.value, env, fn, depth), env, fn, depth)
                continue
            if isinstance(st, ast.Assign):
                try:
                    val = self.ev(st.value, env, fn, depth)
                except ExtractionError as exc:
                    if isinstance(exc, RaisedError):
                        raise
                    try:
                        val = self._from_py(self.const(st.value, env, fn))
                    except TermEval.NotConst:
                        raise exc from None
                if self.fork and isinstance(val, PW) and any(isinstance(t, (ast.Tuple, ast.List)) for t in st.targets):
                    # a forked callee returned one tuple per path and the caller unpacks it (a SymPy Piecewise
                    # cannot be unpacked): the rest of this body is evaluated once per path of the callee
                    rest = body[idx + 1:]
                    branches = []
                    for bval, bcond in val.branches:
                        benv = dict(env)
                        for t in st.targets:
                            self._assign(t, bval, benv, fn, depth)
                        try:
                            res = self.eval_body(rest, benv, fn, depth)
                        except RaisedError:
                            continue
                        if isinstance(res, PW):
                            branches += [(v, Tup([bcond, c2])) for v, c2 in res.branches]
                        else:
                            branches.append((res, bcond))
                    if not branches:
                        raise NoReturn(f"{fn.qual}: every path raises")
                    return branches[0][0] if len(branches) == 1 else PW(branches)
                for t in st.targets:
                    self._assign(t, val, env, fn, depth)
                continue
            if isinstance(st, ast.AugAssign) and isinstance(st.target, ast.Name) and isinstance(env.get(st.target.id), (RF, Mat, int, Fraction)):
                # `x op= e` on a scalar / matrix term rebinds x to `x op e` (term values are immutable, so there
                # is no aliasing to respect; lists, dicts and strings stay outside the grammar)
                binop = ast.copy_location(ast.BinOp(left=ast.Name(id=st.target.id, ctx=ast.Load()), op=st.op, right=st.value), st)
                env[st.target.id] = self.ev(binop, env, fn, depth)
                continue
            if isinstance(st, ast.If):
                # a test over constants (finite index domain) is decided by constant propagation
                try:
                    decided = self.const(st.test, env, fn)
                except TermEval.NotConst:
                    decided = None
                if isinstance(decided, bool):
                    block = st.body if decided else st.orelse
                    if any(isinstance(s_, ast.Raise) for s_ in block):
                        exc = next(s_ for s_ in block if isinstance(s_, ast.Raise))
                        raise RaisedError(f"{fn.qual}: raises `{unparse(exc.exc)[:60] if exc.exc is not None else ''}` for these constants")
                    if block:
                        try:
                            return self.eval_body(block, env, fn, depth)
                        except NoReturn:
                            pass
                    continue
                if self.fork and not all(isinstance(s_, ast.Raise) or (isinstance(s_, ast.Assign) and _only_strings(s_)) for s_ in st.body):
                    try:
                        cond = self.ev(st.test, env, fn, depth)
                    except RaisedError:
                        raise
                    except ExtractionError:
                        # the test is only the LABEL of the two paths (both are evaluated): a test outside the
                        # term grammar is an opaque label (locals numbered, so it is stable under renaming)
                        from .canon import canon

                        cond = Opaque(("test", canon(st.test, fn.node)))
                    rest = body[idx + 1 :]
                    branches = []
                    for block, c in ((st.body, cond), (st.orelse, Opaque(("else-of", vkey(cond))))):
                        try:
                            val = self.eval_body([*block, *rest], dict(env), fn, depth)
                        except RaisedError:
                            continue
                        if isinstance(val, PW):
                            branches += [(v, Tup([c, c2])) for v, c2 in val.branches]
                        else:
                            branches.append((val, c))
                    if not branches:
                        raise NoReturn(f"{fn.qual}: every path raises")
                    return branches[0][0] if len(branches) == 1 else PW(branches)
                # tolerated: guard clauses that only raise (argument validation)
                if all(isinstance(s, ast.Raise) or (isinstance(s, ast.Assign) and _only_strings(s)) for s in st.body) and not st.orelse:
                    continue
                raise ExtractionError(f"{fn.qual}: branching body (`if {unparse(st.test)[:50]}`) is outside the straight-line grammar")
            raise ExtractionError(f"{fn.qual}: statement {type(st).__name__} outside the straight-line grammar")
        raise NoReturn(f"{fn.qual}: no return reached")

    def _assign(self, target, val, env, fn=None, depth=0):
        if isinstance(target, ast.Name):
            env[target.id] = val
        elif isinstance(target, ast.Subscript) and not isinstance(target.slice, ast.Slice):
            # `d[k] = v` on a dict value: updated in place, so every alias (a field of `self` handed to a
            # helper method, a local name for it) sees the entry - like the Python object
            if self.fork:
                raise ExtractionError("item assignment under path forking (the paths would share the mapping)")
            base = self.ev(target.value, env, fn, depth)
            if not isinstance(base, DictV):
                raise ExtractionError(f"item assignment to `{unparse(target.value)[:40]}`: not a dict value")
            key = self.ev(target.slice, env, fn, depth)
            kk = vkey(key)
            base.items[:] = [(a, b) for a, b in base.items if vkey(a) != kk] + [(key, val)]
        elif isinstance(target, (ast.Tuple, ast.List)):
            if (isinstance(val, Opaque) and isinstance(val.key, tuple) and val.key and val.key[0] in {"ref", "attr"}
                    and not any(isinstance(t, ast.Starred) for t in target.elts)):
                # `a, b = x.pair` on an opaque object: a is what `x.pair[0]` denotes, b what `x.pair[1]` denotes
                # (the same atoms as _ev_Subscript makes; a length mismatch would raise in Python)
                val = Tup([RF.atom(("sym", ("attr", val.key, ("idx", (vkey(RF.const(i)),))))) for i in range(len(target.elts))])
            if not isinstance(val, Tup):
                raise ExtractionError("unpacking a non-tuple")
            star = [i for i, t in enumerate(target.elts) if isinstance(t, ast.Starred)]
            if not star:
                if len(val.items) != len(target.elts):
                    raise ExtractionError(f"unpacking {len(val.items)} values into {len(target.elts)} targets")
                for t, v in zip(target.elts, val.items):
                    self._assign(t, v, env, fn, depth)
            else:
                s = star[0]
                n_after = len(target.elts) - s - 1
                for t, v in zip(target.elts[:s], val.items[:s]):
                    self._assign(t, v, env, fn, depth)
                self._assign(target.elts[s].value, Tup(val.items[s: len(val.items) - n_after]), env, fn, depth)
                for t, v in zip(target.elts[s + 1:], val.items[len(val.items) - n_after:]):
                    self._assign(t, v, env, fn, depth)
        else:
            raise ExtractionError(f"assignment target {type(target).__name__}")

    # -------------------------------------------------------------- unfolding
    def self_env(self, cls_qual: str, info: AppInfo) -> dict:
        cls = self.classes[cls_qual]
        struct: dict[str, Any] = {}
        sym_fields = cls.sympy_fields
        for f, v in zip(sym_fields, info.args):
            struct[f.name] = v
        for f in cls.non_sympy_fields:
            if f.name in info.kwargs:
                struct[f.name] = info.kwargs[f.name]
            elif f.name == "name":
                struct[f.name] = Opaque(None)
        struct["args"] = Tup(list(info.args))
        return {"self": struct}

    def unfold_atom(self, atom, method: str = "evaluate", depth: int = 0):
        info = self.apps[atom]
        if info.cls not in self.classes:
            raise ExtractionError(f"cannot unfold {info.cls}")
        cls = self.classes[info.cls]
        m = cls.method(method)
        if m is None:
            raise ExtractionError(f"{cls.name} has no {method}()")
        env = self.self_env(info.cls, info)
        return self.eval_body(m.node.body, env, m, depth)

    def unfold(self, v: RF, classes: set[str] | None = None, max_rounds: int = 8) -> RF:
        """Replace App atoms of (the given) repo classes by their evaluate() terms."""
        for _ in range(max_rounds):
            todo = [a for a in v.atoms() if self.is_app(a) and a in self.apps and self.apps[a].cls in self.classes
                    and (classes is None or self.apps[a].cls.split("::")[-1] in classes)
                    and self.classes[self.apps[a].cls].method("evaluate") is not None]
            # atoms nested inside sqrt radicands
            if not todo:
                nested = self._unfold_radicands(v, classes)
                if nested is None:
                    return v
                v = nested
                continue
            for a in todo:
                val = self._rf(self.unfold_atom(a))
                v = v.substitute(a, val)
        return v

    def _unfold_radicands(self, v: RF, classes) -> RF | None:
        for a in v.atoms():
            if isinstance(a, tuple) and a and a[0] == "sqrt":
                rad = D.radicands[a]
                inner = [x for x in rad.atoms() if self.is_app(x) and x in self.apps and self.apps[x].cls in self.classes
                         and (classes is None or self.apps[x].cls.split("::")[-1] in classes)
                         and self.classes[self.apps[x].cls].method("evaluate") is not None]
                if inner:
                    new_rad = self.unfold(RF(rad), classes)
                    return v.substitute(a, sqrt(new_rad))
        return None


def _all_atoms(v: RF) -> set:
    return v.atoms()


def deep_atoms(te: "TermEval", v, _seen=None) -> set:
    """All atoms of a value, looking through App arguments, sqrt radicands and containers."""
    out: set = set()
    _seen = _seen if _seen is not None else set()

    def visit(x):
        if isinstance(x, RF):
            for a in x.atoms():
                if a in _seen:
                    continue
                _seen.add(a)
                out.add(a)
                if isinstance(a, tuple) and a:
                    if a[0] == "sqrt":
                        visit(RF(D.radicands[a]))
                    elif a[0] == "app" and a in te.apps:
                        for y in te.apps[a].args:
                            visit(y)
                        for y in te.apps[a].kwargs.values():
                            visit(y)
        elif isinstance(x, Tup):
            for y in x.items:
                visit(y)
        elif isinstance(x, Mat):
            for r in x.rows:
                for y in r:
                    visit(y)
        elif isinstance(x, PW):
            for val, cond in x.branches:
                visit(val)
                visit(cond)
        elif isinstance(x, Rel):
            visit(x.lhs)
            visit(x.rhs)

    visit(v)
    return out


def _only_validates(body: list) -> bool:
    """A body made of tests, raises, value-less returns and assignments of strings to plain locals."""
    for st in body:
        if isinstance(st, ast.Expr) and isinstance(st.value, ast.Constant):
            continue
        if isinstance(st, (ast.Raise, ast.Pass)):
            continue
        if isinstance(st, ast.Return) and (st.value is None or (isinstance(st.value, ast.Constant) and st.value.value is None)):
            continue
        if isinstance(st, ast.Assign) and all(isinstance(t, ast.Name) for t in st.targets) and _only_strings(st):
            continue
        if isinstance(st, ast.If) and _only_validates(st.body) and _only_validates(st.orelse):
            continue
        return False
    return True


def _only_strings(st: ast.Assign) -> bool:
    return isinstance(st.value, (ast.Constant, ast.JoinedStr))


def _attr_chain(node: ast.AST) -> str | None:
    parts = []
    while isinstance(node, ast.Attribute):
        parts.append(node.attr)
        node = node.value
    if isinstance(node, ast.Name):
        parts.append(node.id)
        return ".".join(reversed(parts))
    return None


def expand_symbols(spec: str) -> list[str]:
    """Minimal re-implementation of the name grammar of ``sympy.symbols`` that the
    package uses: comma/space separated names and one ``(:n)`` / ``a:b`` range."""
    names: list[str] = []
    for part in re.split(r"[,\s]+", spec.strip()):
        if not part:
            continue
        m = re.fullmatch(r"(.*?)\(?(\d*):(\d+)\)?(.*)", part)
        if m and ":" in part:
            pre, lo, hi, post = m.groups()
            for i in range(int(lo or 0), int(hi)):
                names.append(f"{pre}{i}{post}")
        else:
            names.append(part)
    return names
