"""E4 - structured path walker.

Enumerates the acyclic paths through the statement tree of a (small) function as lists of
events.  Loops contribute their body zero or one time.  Calls of functions selected by
``expand`` are entered (their paths are spliced in, depth-bounded).  Exceptional exits are
generated only at statements that contain a call selected by ``may_raise`` - the rule
decides which calls matter.

Events (tuples):
  ("stmt", node)                        simple statement executed
  ("test", expr, outcome)               branch condition evaluated with outcome True/False
  ("iter", for_node)                    one iteration of a for loop starts (target bound)
  ("with-enter", item) / ("with-exit", with_node)
  ("raise-at", node, call)              a may_raise call raised inside ``node``
  ("handler", handler_node | None)      control enters this handler (None: propagates out)
  ("call-enter", call, FuncInfo, bind)  entering an expanded callee; bind = {param: arg expr}
  ("call-return", call, FuncInfo, value-expr | None, target | None)
  ("return", node)  ("raise", node)     function exit (top level only for the entry function)
"""

from __future__ import annotations

import ast
from dataclasses import dataclass, field
from typing import Callable, Iterator

from .loader import AnalysisError, FuncInfo, Tree, unparse

MAX_PATHS = 20000


@dataclass
class Path:
    events: list = field(default_factory=list)
    exit: str = "fallthrough"  # return | raise | fallthrough | propagate
    exit_node: ast.AST | None = None

    def extended(self, *events) -> "Path":
        return Path([*self.events, *events], self.exit, self.exit_node)


class Flow:
    """Result of walking a block: list of (events, status, payload).

    status: "next" (falls out the end), "return", "raise", "break", "continue", "exc"
    """


class PathWalker:
    def __init__(
        self,
        tree: Tree,
        expand: Callable[[str], bool] = lambda q: False,
        may_raise: Callable[[ast.Call, str | None], bool] = lambda call, callee: False,
        max_depth: int = 3,
    ) -> None:
        self.tree = tree
        self.expand = expand
        self.may_raise = may_raise
        self.max_depth = max_depth
        self.count = 0

    # ------------------------------------------------------------------ public
    def paths(self, fn: FuncInfo) -> list[Path]:
        out = []
        for events, status, payload in self._func(fn, 0):
            p = Path(events)
            if status == "return":
                p.exit, p.exit_node = "return", payload
            elif status in {"raise", "exc"}:
                p.exit, p.exit_node = ("raise" if status == "raise" else "propagate"), payload
            else:
                p.exit = "fallthrough"
            out.append(p)
        return out

    # --------------------------------------------------------------- internals
    def _func(self, fn: FuncInfo, depth: int):
        for events, status, payload in self._block(fn.node.body, fn, depth):
            if status in {"break", "continue"}:
                raise AnalysisError(f"{fn.qual}: break/continue outside loop")
            yield events, status, payload

    def _guard(self):
        self.count += 1
        if self.count > MAX_PATHS:
            raise AnalysisError("path explosion in the structured path walker")

    def _block(self, body: list[ast.stmt], fn: FuncInfo, depth: int):
        if not body:
            yield [], "next", None
            return
        head, rest = body[0], body[1:]
        for ev1, st1, pl1 in self._stmt(head, fn, depth):
            if st1 != "next":
                yield ev1, st1, pl1
                continue
            for ev2, st2, pl2 in self._block(rest, fn, depth):
                self._guard()
                yield ev1 + ev2, st2, pl2

    def _calls_that_may_raise(self, node: ast.AST, fn: FuncInfo) -> list[ast.Call]:
        out = []
        for n in ast.walk(node):
            if isinstance(n, ast.Call):
                callee = self.tree.callee(n, fn)
                if self.may_raise(n, callee):
                    out.append(n)
        return out

    def _expandable_call(self, node: ast.AST, fn: FuncInfo, depth: int):
        """(call, FuncInfo) if ``node`` *is* a call of an expandable repo function."""
        if depth >= self.max_depth or not isinstance(node, ast.Call):
            return None
        callee = self.tree.callee(node, fn)
        if callee and callee in self.tree.funcs and self.expand(callee):
            return node, self.tree.funcs[callee]
        return None

    def _splice_call(self, call: ast.Call, callee: FuncInfo, fn: FuncInfo, depth: int, target):
        """Paths through an expanded callee; yields (events, status, payload) where status
        is "next" for normal return (value recorded in the call-return event)."""
        params = callee.params
        if callee.cls is not None and not any(unparse(d) == "staticmethod" for d in callee.node.decorator_list):
            params = params[1:]
        bind = {}
        for p, a in zip(params, call.args):
            bind[p] = a
        for k in call.keywords:
            if k.arg:
                bind[k.arg] = k.value
        enter = ("call-enter", call, callee, bind)
        for events, status, payload in self._func(callee, depth + 1):
            if status in {"return", "next"}:
                value = payload.value if status == "return" and payload is not None else None
                yield [enter, *events, ("call-return", call, callee, value, target)], "next", None
            else:  # raise / exc propagate into the caller
                yield [enter, *events, ("call-return", call, callee, None, None)], "exc", payload

    def _simple(self, st: ast.stmt, fn: FuncInfo, depth: int, value: ast.AST | None, target):
        """A simple statement, possibly with an expandable call as its value and with
        exceptional exits at may_raise calls."""
        exp = self._expandable_call(value, fn, depth) if value is not None else None
        if exp is not None:
            call, callee = exp
            for events, status, payload in self._splice_call(call, callee, fn, depth, target):
                if status == "next":
                    yield [*events, ("stmt", st)], "next", None
                else:
                    yield events, status, payload
            return
        for call in self._calls_that_may_raise(st, fn):
            yield [("raise-at", st, call)], "exc", call
        yield [("stmt", st)], "next", None

    def _stmt(self, st: ast.stmt, fn: FuncInfo, depth: int):
        if isinstance(st, ast.Return):
            v = st.value
            if isinstance(v, ast.IfExp):
                for outcome, branch in ((True, v.body), (False, v.orelse)):
                    fake = ast.Return(value=branch)
                    ast.copy_location(fake, st)
                    fake._module = getattr(st, "_module", None)  # type: ignore[attr-defined]
                    yield [("test", v.test, outcome), ("stmt", fake)], "return", fake
                return
            exp = self._expandable_call(v, fn, depth) if v is not None else None
            if exp is not None:
                call, callee = exp
                for events, status, payload in self._splice_call(call, callee, fn, depth, "<return>"):
                    if status == "next":
                        yield [*events, ("stmt", st)], "return", st
                    else:
                        yield events, status, payload
                return
            for call in self._calls_that_may_raise(st, fn):
                yield [("raise-at", st, call)], "exc", call
            yield [("stmt", st)], "return", st
            return
        if isinstance(st, ast.Raise):
            yield [("stmt", st)], "raise", st
            return
        if isinstance(st, ast.Break):
            yield [], "break", st
            return
        if isinstance(st, ast.Continue):
            yield [], "continue", st
            return
        if isinstance(st, ast.If):
            yield from self._if(st, fn, depth)
            return
        if isinstance(st, (ast.For, ast.AsyncFor, ast.While)):
            yield from self._loop(st, fn, depth)
            return
        if isinstance(st, (ast.With, ast.AsyncWith)):
            yield from self._with(st, fn, depth)
            return
        if isinstance(st, ast.Try):
            yield from self._try(st, fn, depth)
            return
        if isinstance(st, (ast.FunctionDef, ast.AsyncFunctionDef, ast.ClassDef)):
            yield [("stmt", st)], "next", None
            return
        if isinstance(st, ast.Assign):
            tgt = st.targets[0] if len(st.targets) == 1 else None
            yield from self._simple(st, fn, depth, st.value, tgt)
            return
        if isinstance(st, ast.AnnAssign):
            yield from self._simple(st, fn, depth, st.value, st.target)
            return
        if isinstance(st, ast.Expr):
            yield from self._simple(st, fn, depth, st.value, None)
            return
        yield from self._simple(st, fn, depth, None, None)

    def _if(self, st: ast.If, fn, depth):
        test = st.test
        pre_paths = [([], "next", None)]
        # an expandable call inside the test: `if helper(x):` / `if (c := helper(x)) is not None:`
        inner = None
        for n in ast.walk(test):
            e = self._expandable_call(n, fn, depth)
            if e is not None:
                inner = e
                break
        if inner is not None:
            call, callee = inner
            target = None
            for n in ast.walk(test):
                if isinstance(n, ast.NamedExpr) and n.value is call:
                    target = n.target
            pre_paths = list(self._splice_call(call, callee, fn, depth, target if target is not None else "<test>"))
        else:
            raising = self._calls_that_may_raise(test, fn)
            for call in raising:
                yield [("raise-at", st, call)], "exc", call
        for pre, status, payload in pre_paths:
            if status != "next":
                yield pre, status, payload
                continue
            for outcome, body in ((True, st.body), (False, st.orelse)):
                for events, s2, p2 in self._block(body, fn, depth):
                    self._guard()
                    yield [*pre, ("test", test, outcome), *events], s2, p2

    def _loop(self, st, fn, depth):
        is_for = isinstance(st, (ast.For, ast.AsyncFor))
        # zero iterations
        for events, s, p in self._block(st.orelse, fn, depth):
            yield ([("test", st.test, False)] if not is_for else []) + events, s, p
        # one iteration
        head = [("iter", st)] if is_for else [("test", st.test, True)]
        for events, s, p in self._block(st.body, fn, depth):
            self._guard()
            if s in {"next", "continue"}:
                for e2, s2, p2 in self._block(st.orelse, fn, depth):
                    yield [*head, *events, *e2], s2, p2
            elif s == "break":
                yield [*head, *events], "next", None
            else:
                yield [*head, *events], s, p

    def _with(self, st, fn, depth):
        enters = []
        for item in st.items:
            for call in self._calls_that_may_raise(item.context_expr, fn):
                yield [*enters, ("raise-at", st, call)], "exc", call
            enters.append(("with-enter", item))
        for events, s, p in self._block(st.body, fn, depth):
            self._guard()
            yield [*enters, *events, ("with-exit", st)], s, p

    def _try(self, st: ast.Try, fn, depth):
        for events, s, p in self._block(st.body, fn, depth):
            self._guard()
            if s == "next":
                for e2, s2, p2 in self._block(st.orelse, fn, depth):
                    for e3, s3, p3 in self._finally(st, fn, depth, s2, p2):
                        yield [*events, *e2, *e3], s3, p3
            elif s in {"exc", "raise"}:
                # every handler is a may-target (the rule checks which exception types it covers)
                for h in st.handlers:
                    for e2, s2, p2 in self._block(h.body, fn, depth):
                        for e3, s3, p3 in self._finally(st, fn, depth, s2, p2):
                            yield [*events, ("handler", h, p), *e2, *e3], s3, p3
                # ... and the exception may also escape all handlers
                for e3, s3, p3 in self._finally(st, fn, depth, s, p):
                    yield [*events, ("handler", None, p, st), *e3], s3, p3
            else:
                for e3, s3, p3 in self._finally(st, fn, depth, s, p):
                    yield [*events, *e3], s3, p3

    def _finally(self, st: ast.Try, fn, depth, status, payload):
        if not st.finalbody:
            yield [], status, payload
            return
        for events, s, p in self._block(st.finalbody, fn, depth):
            if s == "next":
                yield events, status, payload
            else:
                yield events, s, p


def handler_covers(handler: ast.ExceptHandler, needed: set[str], tree: Tree, fn: FuncInfo) -> bool:
    """Does this ``except`` clause catch every exception class named in ``needed``?

    ``needed`` contains builtin names / dotted names; hierarchy knowledge is a small table."""
    if handler.type is None:
        return True
    types = handler.type.elts if isinstance(handler.type, ast.Tuple) else [handler.type]
    names = set()
    for t in types:
        resolved = tree.resolve(fn.module, t, fn)
        names.add((resolved or unparse(t)).split(".")[-1])
    if names & {"Exception", "BaseException"}:
        return True
    covered = set()
    for n in names:
        covered |= SUBCLASSES.get(n, set()) | {n}
    return needed <= covered


SUBCLASSES = {
    "OSError": {"FileNotFoundError", "PermissionError", "IsADirectoryError", "NotADirectoryError", "IOError", "EnvironmentError", "FileExistsError"},
    "IOError": {"OSError", "FileNotFoundError", "PermissionError", "IsADirectoryError"},
    "EnvironmentError": {"OSError", "FileNotFoundError", "PermissionError", "IsADirectoryError"},
    "PickleError": {"UnpicklingError", "PicklingError"},
    "LookupError": {"IndexError", "KeyError"},
    "ImportError": {"ModuleNotFoundError"},
    "ValueError": {"UnicodeDecodeError", "UnicodeError"},
    "ArithmeticError": {"OverflowError", "ZeroDivisionError"},
}


def atomic_tests(events: list) -> list[list]:
    """The alternatives of one path with every ``("test", a and/or b, outcome)`` event split into
    tests of the operands, following short-circuit evaluation: ``a or b`` is True on `a` or on
    `not a, b`, False on `not a, not b`; ``a and b`` dually; ``not x`` flips the outcome.  One path
    with a compound condition becomes several paths whose conditions are atoms, so a rule sees the
    same (test, outcome) pairs whether two guards are written as two ``if`` statements or merged
    into one."""

    def split(test: ast.AST, outcome: bool) -> list[list]:
        if isinstance(test, ast.UnaryOp) and isinstance(test.op, ast.Not):
            return split(test.operand, not outcome)
        if isinstance(test, ast.BoolOp):
            is_or = isinstance(test.op, ast.Or)
            head, rest = test.values[0], test.values[1:]
            tail = rest[0] if len(rest) == 1 else ast.copy_location(ast.BoolOp(op=test.op, values=rest), test)
            if outcome == is_or:  # decided by the first operand that has this outcome
                first = split(head, outcome)
                later = [a + b for a in split(head, not outcome) for b in split(tail, outcome)]
                return first + later
            return [a + b for a in split(head, outcome) for b in split(tail, outcome)]
        return [[("test", test, outcome)]]

    out: list[list] = [[]]
    for e in events:
        if e[0] == "test" and len(e) == 3:
            alts = split(e[1], e[2])
            out = [p + a for p in out for a in alts]
        else:
            out = [p + [e] for p in out]
    return out
